#!/bin/sh
# tools/seed_check.sh <seed-id> <check ids...>: run the named checks against a scratch copy of /repo's package with seeded/<seed-id>/patch.diff applied
set -u
id=$1; shift
out=/verif/seeded/$id
scratch=/var/tmp/sweetpea-verif-seed-$id-$$; rm -rf "$scratch"; mkdir -p "$scratch"
cp -r /repo/sweetpea "$scratch/sweetpea"; find "$scratch" -name __pycache__ -prune -exec rm -rf {} + 2>/dev/null
( cd "$scratch" && patch -p1 -s < "$out/patch.diff" ) || { echo "patch does not apply to the current /repo"; rm -rf "$scratch"; exit 2; }
cd /verif
for c in "$@"; do
  r=$(VERIF_REPO=$scratch VERIF_OUT=$scratch/out ./vcheck "$c" quick 2>&1 | grep -E "^VIOLATION|^KNOWN|quick:|CRASH|Traceback" | head -4 | cut -c1-400)
  n=$(echo "$r" | grep -c '^VIOLATION')
  echo "CHECK $id $c violations=$n :: $(echo "$r" | tr '\n' ' ' | cut -c1-700)"
done
rm -rf "$scratch"
