"""Regenerates MANIFEST.json from the table below (single source of truth for the registered checks)."""
import json
from pathlib import Path

ROOT = Path(__file__).resolve().parent.parent
BASE = json.load(open("/root/.vp/BASELINE.json"))["cmd"].replace(" --junitxml=<file>", "")

SYS_NOTE = ("Bounded design space D (spec/designs.py: curated core + VERIF_SEED random draws, sequence space <= 60000 quick / 400000 thorough); "
            "reference reading of the documentation in spec/model.py is three-valued and trusted; pycryptosat trusted for 'unsat'; "
            "deductive links (pyvc.wp / concolic contracts) are proved for all inputs and reported as tier P inside the evidence.")

CHECKS = {
    "C01": dict(cat="other", tech="contract on synthesize_trials checked per design: all models of the real compiled CNF (SAT enumeration) + returned sequences vs reference predicate; wp-proved window/applicability links",
                text="For each design of the bounded space D every model of the formula the library really compiles is enumerated (independent blocking loop), decoded with the library's decoder and must not be invalid under an independent reading of the documentation; sequences returned by IterateSATGen (thorough: CMSGen, UniGen, IterateGen) likewise; LatinSquare over two and three factors of unequal sizes is sampled and each sequence checked against the two checkable statements of its documentation. Unbounded content: the pyvc.wp proofs of the repetition-window and applicability functions and the C10/C12 encoder contracts it rests on.",
                note=SYS_NOTE, ref="4.3 C01"),
    "C02": dict(cat="other", tech="exhausted IterateSATGen / projected model set of the compiled CNF vs brute-force valid set of the reference predicate, with multiplicities",
                text="Per design of D whose whole sequence space can be enumerated: the set (and multiplicities) returned by exhausting IterateSATGen, and the projected model set of the compiled formula, equal the independently computed valid set (definitely-valid subset must be returned, nothing definitely invalid may be).",
                note=SYS_NOTE, ref="4.3 C02"),
    "C03": dict(cat="other", tech="per projected model of the real CNF a SAT query for a second auxiliary extension (must be unsat); Lemma DE over builder contracts",
                text="Per design of D and per projected model of the compiled formula, a second extension to the auxiliary variables is refuted by SAT. The unbounded argument is Lemma DE over the `.defs` obligations of C10/C12 and the Tseitin contracts of C11.",
                note=SYS_NOTE, ref="4.3 C03"),
    "C04": dict(cat="exploration", tech="RandomGen outputs vs reference predicate + exhaustive check per design that the library's acceptance tests (rejection criteria) never pass an invalid candidate",
                text="Bounded exploration of D. Besides judging what RandomGen returns, every candidate sequence of each design is run through the library's own acceptance tests (the ones RandomGen rejects by): none that is definitely invalid may pass. That obligation does not depend on sampler luck.",
                note=SYS_NOTE, ref="4.3 C04"),
    "C05": dict(cat="exploration", tech="complete enumeration of RandomGen's candidate indices through the enumerator's own generation methods vs brute-force valid set; wp proofs of the mixed-radix / base-n / falling-factorial unranking",
                text="Per design of D with a bounded number of candidates every candidate (preamble index x round component tuples x leftover components) is built exactly as RandomGen.__sample does, including the rejection test: accepted candidates map one-to-one onto the valid sequences (times documented copy multiplicity) and the sampled ranges have the sizes the counting code reports.",
                note=SYS_NOTE + " Uniformity of random.randrange is trusted.", ref="4.3 C05"),
    "C06": dict(cat="exploration", tech="exhausted RandomGen vs brute-force valid set with multiplicities; metrics solution_count on no-rejection designs",
                text="Bounded exploration of D: RandomGen asked for more than exist returns exactly the valid set (each once, times documented copy multiplicity) and stops; solution_count equals the number of valid sequences on single-CrossBlock designs without rejection-checked constraints or complex windows.",
                note=SYS_NOTE + " Termination of the rejection loop is not proved: a worker exceeding the wall-clock limit is undecided.", ref="4.3 C06"),
    "C09": dict(cat="exploration", tech="requested-vs-returned counts and per-call multiplicities for IterateSATGen, RandomGen, IterateGen over D",
                text="Bounded exploration: five requested counts around the number of available solutions per design and strategy; returned == min(requested, available); no sequence more often than the copy multiplicity of weighted levels outside the crossing.",
                note="Bounded design space; that a strategy returns as many sequences as exist is checked relationally (union of the exhausted strategies' printed sequences) and against the reference reading in C02/C06; a requested count for which a call raises is a finding of that row.", ref="4.3 C09 / 11"),
    "C14": dict(cat="other", tech="every (trial, factor, level) of every design of D encoded by the real code vs independent closed-form layout, injectivity/range/decoding; z3 lemmas for layout injectivity; wp proofs of applies_to_trial and _get_previous_trials_variable_count (memo table with representation invariant)",
                text="Per design of D all choices are encoded with _encode_variable and compared with an independently computed closed form, checked distinct, in range, inverted by decode_variable and consistent with factor_variables_for_trial and the cached counter; Gen.decode is run on all (or 300 seeded) one-hot assignments; auxiliary ids lie above. The closed-form layouts are proved injective and ranged for all geometries by z3.",
                note="Bounded design space; the layout lemma is about the closed form, which is compared with (not extracted from) the code.", ref="4.1 C14"),
    "C15": dict(cat="exploration", tech="exhaustive truth-table enumeration of derived-factor predicates per shape through the public API",
                text="For seven derivation shapes every assignment of accepting-level sets to every window (completely when <= 300/5000 tables, else seeded plus all single-defect tables; ElseLevel variants) is built: overlap must raise, a gap must give an error and no sequences, otherwise returned sequences carry exactly the accepting level and '' where the factor does not apply.",
                note="Two derived levels per factor, <= 3 source levels; reference reading for the total case.", ref="4.3 C15"),
    "C16": dict(cat="other", tech="trials_per_sample vs independently computed documented trial count per design; lengths of sequences from every strategy; wp proofs of __trials_required_for_crossing and applies_to_trial",
                text="Per design of D the reported trial count equals an independent implementation of the documented arithmetic, and every strategy (incl. SMGen when it does not refuse) returns exactly that many entries per user factor. The counting helper __trials_required_for_crossing is proved (partial correctness) to return the smallest trial count containing `crossing_size` applicable trials; applies_to_trial is proved to be the documented start/stride progression.",
                note=SYS_NOTE + " Termination of the counting loop is not proved.", ref="4.3 C16"),
    "C17": dict(cat="exploration", tech="sample_mismatch_experiment on every candidate sequence of each design vs three-valued reference predicate",
                text="Bounded exploration: for each design of D every candidate sequence (whole space up to the stated limit) is checked by the real function; definitely valid must give {}, definitely invalid must not; single-trial perturbations of valid sequences (any factor, any level) add wrong derived labels and broken sustained groups.",
                note=SYS_NOTE + " Candidates carry correct derived levels; designs whose crossing is unsatisfiable by construction are not judged.", ref="4.3 C17"),
    "C18": dict(cat="exploration", tech="histories: families of 2-3 blocks sharing factor/constraint objects built in every order vs fresh builds (solution sets, mismatch verdicts)",
                text="Bounded exploration over construction orders: each block built from shared objects must equal its fresh build in trial count, exhausted IterateSATGen set and sample_mismatch_experiment verdicts.",
                note="Families cover each window-scoped constraint class across CrossBlock/Repeat/Merge/Nest, shared transition/weighted factors, shared constraint LISTS, and Merge/Nest called without a constraints argument after other combinators; the fresh build of every block runs in a process of its own.", ref="4.3 C18 / 11"),
    "C19": dict(cat="exploration", tech="histories of library calls with ghost snapshots of the block's design-relevant state (frame condition) and a final synthesize_trials",
                text="All single calls, every strategy called twice, and seeded call sequences (length 2 quick / 3 thorough) over eleven call kinds (five strategies incl. SMGen, CMSGen) on 15 blocks incl. four with continuous factors; a synthesize_trials call that raises inside a history although it succeeds as the first call on a fresh block in a process of its own is a violation; the snapshot must be unchanged after every call and the final synthesis must succeed, be valid and return the same columns.",
                note="State snapshot covers design, orig_design, crossings, constraint classes, continuous factors, exclusions, min_trials, act_design, errors, level names.", ref="4.3 C19"),
    "C20": dict(cat="other", tech="pyvc.wp proofs of _experiments_to_tuples and _experiments_to_dicts on the real source (all experiment lists and key lists; zip(*rows), dict(zip()) via builtin contracts) + bounded contract evaluation of the public conversion functions on synthesized and arbitrary experiments; CSV read back; hidden-factor exposure check over D",
                text="Proved: per experiment in order, as many trials as the shortest selected column, trial t holds exactly experiments[e][keys[j]][t] at position j / under key keys[j], no other keys. Bounded: per design of D (incl. weighted factors outside the crossing) tuples/dicts/CSV outputs must reproduce the user factors' values per trial in design order and nothing else; raw helpers on random experiment lists.",
                note="csv module used as reader. Proved for all inputs: the two private conversion helpers; bounded: name filtering (__filter_hidden*), the CSV writer and the public wrappers. Builtin contracts of zip(*rows) and dict(zip(keys, tuple)) are assumed.", ref="4.1 C20 / 11.7"),
    "C21": dict(cat="exploration", tech="contract on captured stdout of tabulate_experiments over seeded experiments, factor and trial selections",
                text="Printed frequency == count of selected trials with the combination; percentage == 100*frequency/selected within 1e-9; every combination once.",
                note="At least one selected trial; experiments include trials whose value is '' or a level the selected Factor does not list; the counting loop is inside a printing function and outside the deductive engines.", ref="4.1 C21"),
    "C22": dict(cat="other", tech="pyvc.wp proofs of Block._check_constraints and ContinuousFactorWindow.get_window_val/_return_nan on the real source (dicts as arrays, predicates abstract) + recording distributions and seeded end-to-end designs (bounded)",
                text="get_window_val vs the documented window for all shapes (exhaustive in the bound), _check_constraints for all truth patterns, and end-to-end assembly (inputs received by dependent distributions, one value per trial, constraints hold, discrete part valid).",
                note="Proved for all inputs: _check_constraints (True iff every ContinuousConstraint predicate holds at every trial, called on exactly that trial's values) and get_window_val (documented window incl. NaN cases). Bounded: the assembly in _sample_continuous and the resample loop (termination not claimed). float('nan') is an opaque constant, attribute reads are uninterpreted functions.", ref="4.1 C22 / 11"),
    "C23": dict(cat="other", tech="relational: weighted design vs copy-expanded twin, both samplers exhausted, renamed back; pyvc.wp proof of Cross.__add_weight_constraint (counting requests per chunk, weight*crossing_weight)",
                text="Printed sequence sets equal; weighted levels of factors in every crossing add no distinct solutions; for factors that are not in every crossing the multiset of solutions equals that of the twin in which exactly those factors have separately named copies (C23.twin.partly).",
                note="Constraints naming a weighted level are excluded from the twin comparison. Known finding D19 (known_findings.json): copies of a weighted factor that is in some but not every crossing are not distinct solutions.", ref="4.3 C23"),
    "C24": dict(cat="exploration", tech="relational: documented constructor equivalences, both sides built fresh, T and exhausted IterateSATGen sets compared",
                text="MultiCrossBlock vs Merge of CrossBlocks (mode x alignment grid), Repeat vs Merge REPEAT, Repeat(block, []) / Merge([block]) vs block, CrossBlock vs single-crossing MultiCrossBlock WEIGHT; both rejected or both accepted with equal sets.",
                note="Bounded design space; a few equivalences are re-evaluated in a process that built other combinators first.", ref="4.3 C24 / 11.6"),
    "C29": dict(cat="other", tech="SMGen on every design of D x seeds: documented refusal or valid output; constraint classes enumerated by reflection",
                text="Every design of D is given to SMGen with several seeds in killable workers: either the unsupported-feature error is raised or every returned sequence is valid; all concrete constraint classes found by reflection are exercised.",
                note="Timer interleavings of the search are not explored (schedules quantifier not covered).", ref="4.3 C29"),
    "C25": dict(cat="other", tech="Nest designs: compiled-formula model sets (SAT) and both samplers vs reference reading; associativity by set equality",
                text="Curated Nest designs (outer/inner 2-3 levels, inner / own constraints, uncrossed outer factor, nested Nest): trial count, per-group constancy of outer crossed factors, outer crossing over groups and inner crossing/constraints within groups are all part of the reference predicate the model sets are compared with; Nest(Nest(a,b),c) and Nest(a,Nest(b,c)) must have equal solution sets; one outer block object nested repeatedly must give the same Nests as freshly built blocks.",
                note=SYS_NOTE + " Constraints on the OUTER block other than Exclude are outside the reference reading.", ref="4.3 C25"),
    "C26": dict(cat="other", tech="wp proof of map_block_trial_ranges (window enumeration for all inputs) + composed designs: model sets and samplers vs reference reading with per-repetition / global scoping",
                text="The window mechanism is proved for all inputs (each window is [s0+j(L-p), min(s0+j(L-p)+L, T)), all non-preamble trials covered, loop terminates). Over the composed designs of D (each constraint class on the inner block and on the combinator, partial last repetitions, preambles) the compiled formula's model set and both samplers equal the documented sets.",
                note=SYS_NOTE, ref="4.2 / 4.3 C26"),
    "C07": dict(cat="exploration", tech="relational: exhausted IterateSATGen set == exhausted RandomGen set per design (no oracle)",
                text="Bounded exploration of D: both samplers are exhausted on every design both accept and the sets of sequences must be equal by level names.",
                note="Bounded design space; designs on which a sampler is not exhausted within the limit are reported undecided.", ref="4.3 C07"),
    "C08": dict(cat="other", tech="raises-nothing contract: wp safety obligations (proved) + every design of D run with each strategy",
                text="Safety obligations (index in bounds, divisor non-zero, undeclared raise unreachable) of the window/unranking functions are proved by pyvc.wp for all inputs; every design of D that the constructors accept is synthesized with IterateSATGen and RandomGen (thorough: CMSGen, UniGen) and must not raise.",
                note=SYS_NOTE, ref="4.3 C08"),
    "C10": dict(cat="other", tech="pyvc.wp proofs on the real source for EVERY n and k (assert_k_of_n, _inequality_assertion, _make_same_length, _convert_to_negative_twos_complement, int_to_binary; pop_count by contract) + concolic execution with z3 per shape (ids/assignments unbounded, unique extension by Lemma DE) + native SAT spot checks",
                text="For all n and k pyvc.wp proves on the real source that, under the definitional clauses (which enter through callee contracts), the asserted unit clauses hold iff the count stands in the relation to k — for exactly, fewer than and more than; induction lemmas on binary representations are proved on every run. Per (relation, n, k) shape the real encoder is executed with symbolic variable ids and z3 proves, for all ids and all 2^n assignments at once, that the asserted clauses hold iff the count relation holds, against the callee contracts of pop_count/ripple_carry, and that every auxiliary variable is defined exactly once (unique extension). Bounded only in n and k (quick n<=9, thorough n<=16,k<=40); int_to_binary is proved for all k by pyvc.wp; dispatch, request round-trip, ordered pairs of requests over one variable list in one formula, and spot checks on large lists (n around every power of two up to 1024, fully specified inputs) are bounded evaluation on the real code.",
                note="The for-all-n proofs assume pop_count's contract for symbolic n and the small builders' contracts (xnor_vars, zero_out, set_to_one, get_n_fresh — checked per shape and on large n); they state the direction 'every assignment satisfying the clauses satisfies the relation'; existence and uniqueness of the extension (Lemma DE side condition) is per shape (n, k bounded); Lemma DE is a paper lemma; z3/cvc5 and pycryptosat trusted; math.log evaluated concretely per shape.", ref="4.1 C10 / 11.6 / 11.8"),
    "C13": dict(cat="other", tech="pyvc.wp proofs (mixed-radix / base-n / falling-factorial unranking: rank equation, ranges, termination) + exhaustive bounded bijection checks against itertools",
                text="extract_components, compute_jth_combination and compute_jth_inversion_sequence are proved for all inputs (digits in range, rank(result) + (j div N) N == j, loops terminate, no division by zero); construct_permutation is proved to stay in bounds and to return pairwise distinct indices below orig_n (a permutation prefix), n_choose_m_given_m_factorial to compute the falling factorial and its floor quotient; the search-based functions (combinations without replacement, permutation prefixes, permutations with copies and their prefixes, counting functions, shared memo) are enumerated completely for every parameter tuple in a stated bound.",
                note="Bijection for the three proved functions follows from the rank equation by finite pigeonhole (paper). The other eight functions are bounded (counters<=3, total<=7/8, n<=5/6).", ref="4.1 C13"),
    "C28": dict(cat="other", tech="real OPB renderers run per shape; text evaluated by an independent pseudo-Boolean evaluator under all assignments (truth table)",
                text="Every clause as a multiset of literals (<=3/4 literals over 5 ids; repeated and complementary literals included), every request (kind, n<=5/6, k) and every blocking constraint (support<=4/5) is rendered by the real functions and compared with the SAT-side meaning under all assignments: complete per shape, bounded in shape.",
                note="spec/opb.py evaluator trusted; Gurobi absent so only the exported text is judged.", ref="4.1 C28"),
    "C11": dict(cat="other", tech="contracts on the three converters evaluated for every formula of a bounded space under all assignments (truth table); cnf_to_json faithfulness",
                text="For every formula with <= 2 connectives over 5 literals (plus n-ary/empty And/Or), seeded larger formulas and id renamings, under ALL assignments: Tseitin has exactly the formula's models on the original variables with a unique extension and fresh ids in the reported range; naive is equivalent without new variables; switching has the same projected models. Complete per formula, bounded in formula size — the quantifier the property itself names.",
                note="Truth-table evaluator trusted. _Cache.get is proved for all inputs by pyvc.wp (fresh representatives from next_variable, one per key, frame); the node contracts of the Tseitin recursion (miss defines rep <-> op(children), hit is silent, nodes sharing a cache key are equivalent) are checked per node over a bounded operand domain; the structural induction itself is a paper argument.", ref="4.1 C11 / 11"),
    "C27": dict(cat="exploration", tech="bounded contract evaluation of the DIMACS writers, the library's two parsers and update_file against an independent reader; blocking clause by truth table",
                text="Round trips of compiled formulas of D and seeded clause sets through save_cnf, both library parsers and update_file; header counts; sampling-set lines across the 10-per-line chunking; synthetic solver outputs incl. wrapped v-lines; the blocking clause is evaluated under all assignments of supports <= 5; wide formulas (1300 / 3000 support variables) make the blocking clause thousands of characters long, two update_file iterations each.",
                note="String theories were not used (unstable per the brief); formulas with contiguous ids and non-empty clauses as the library generates them.", ref="4.1 C27"),
    "C12": dict(cat="other", tech="contracts on the real builders; concolic execution, gates proved for all inputs (loop-free, all paths), adders/pop count per width by z3 against callee contracts",
                text="half/full/saturate adders: loop-free, every path explored and covered by the precondition, clause set equivalent to the definitions for all ids and assignments (proved). ripple_carry and ripple_saturate: additionally proved for EVERY width and saturation point by pyvc.wp (loop invariants over partial sums, adders by contract). pop_count: proved per width against callee contracts (sum equation with documented top-bit saturation; every fresh variable defined exactly once => no other freedom), plus two counts over one variable list in one formula (bounded, native SAT).",
                note="pop_count bounded in n (quick n<=16); the wp proofs show 'clauses imply the sum equation' for all widths, the 'no other freedom' half is the per-width Lemma-DE side condition; SMT solvers trusted.", ref="4.1 C12 / 11"),
}


def main():
    props = [json.loads(l) for l in open(ROOT / "properties.jsonl")]
    na_reasons = json.loads((ROOT / "tools" / "not_applicable.json").read_text()) if (ROOT / "tools" / "not_applicable.json").exists() else {}
    checks = []
    for pid, c in CHECKS.items():
        checks.append(dict(property_id=pid, quick_cmd=f"./vcheck {pid} quick", thorough_cmd=f"./vcheck {pid} thorough",
                           evidence_file=f"/verif/evidence/{pid}.json", replay_cmd_template="./vcheck --replay {path}",
                           engine="pyvc", level_claimed=dict(category=c["cat"], text=c["text"], design_ref=c["ref"]),
                           level_note=c["note"], technique=c["tech"]))
    m = dict(version=1, setup_cmd="./setup.sh",
             hooks=dict(guard="SWEETPEA_VERIF", enable="no hooks in /repo: contracts wrap the real functions from /verif (source re-parsing, sidecar wrappers, concolic proxies); guard name reserved",
                        baseline_off_cmd=BASE, source_commits=[], add_only=True),
             engines=[dict(name="pyvc", path="/verif/pyvc", serves_properties=sorted(CHECKS),
                           kind_free_text="contract checker for the real Python code: pyvc.wp (AST -> verification conditions, z3/cvc5), pyvc.concolic (real CPython code on symbolic integers), bounded contract evaluation on the real functions")],
             checks=checks,
             notes="See DESIGN.md (section 10: as built, defects, known findings D14 and D19, corrected false alarms; section 11: round 3 — engine extensions, seeded changes and which checks catch them, defects D20-D25). fix: commits in /repo and known findings are listed in /verif/known_findings.json.",
             not_applicable=[dict(property_id=p["id"], reason=na_reasons.get(p["id"], "check not built yet (build in progress)"))
                             for p in props if p["id"] not in CHECKS])
    (ROOT / "MANIFEST.json").write_text(json.dumps(m, indent=1))
    import jsonschema
    jsonschema.validate(m, json.load(open("/root/.vp/MANIFEST.schema.json")))
    print("MANIFEST ok:", len(checks), "checks,", len(m["not_applicable"]), "not applicable")


if __name__ == "__main__":
    main()
