"""Regenerates MANIFEST.json from the table below (single source of truth for the registered checks)."""
import json
from pathlib import Path

ROOT = Path(__file__).resolve().parent.parent
BASE = json.load(open("/root/.vp/BASELINE.json"))["cmd"].replace(" --junitxml=<file>", "")

CHECKS = {
    "C10": dict(cat="other", tech="contracts on the real encoders; concolic execution + z3 per shape (ids/assignments unbounded), Lemma DE; native SAT replay",
                text="Per (relation, n, k) shape the real encoder is executed with symbolic variable ids and z3 proves, for all ids and all 2^n assignments at once, that the asserted clauses hold iff the count relation holds, against the callee contracts of pop_count/ripple_carry, and that every auxiliary variable is defined exactly once (unique extension). Bounded only in n and k (quick n<=9, thorough n<=16,k<=40); dispatch and request round-trip are bounded evaluation on the real code.",
                note="Bounded in (n,k); Lemma DE is a paper lemma; z3/cvc5 and pycryptosat trusted; int_to_binary and math.log evaluated concretely per shape.", ref="4.1 C10"),
    "C12": dict(cat="other", tech="contracts on the real builders; concolic execution, gates proved for all inputs (loop-free, all paths), adders/pop count per width by z3 against callee contracts",
                text="half/full/saturate adders: loop-free, every path explored and covered by the precondition, clause set equivalent to the definitions for all ids and assignments (proved). ripple_carry, ripple_saturate, pop_count: proved per width against callee contracts (sum equation with documented top-bit saturation; every fresh variable defined exactly once => no other freedom). Bounded in width only.",
                note="Widths bounded (quick: ripple<=10, pop count n<=16); Lemma DE on paper; SMT solvers trusted.", ref="4.1 C12"),
}


def main():
    props = [json.loads(l) for l in open(ROOT / "properties.jsonl")]
    na_reasons = json.loads((ROOT / "tools" / "not_applicable.json").read_text()) if (ROOT / "tools" / "not_applicable.json").exists() else {}
    checks = []
    for pid, c in CHECKS.items():
        checks.append(dict(property_id=pid, quick_cmd=f"./vcheck {pid} quick", thorough_cmd=f"./vcheck {pid} thorough",
                           evidence_file=f"/verif/evidence/{pid}.json", replay_cmd_template="./vcheck --replay {path}",
                           engine="pyvc", level_claimed=dict(category=c["cat"], text=c["text"], design_ref=c["ref"]),
                           level_note=c["note"], technique=c["tech"]))
    m = dict(version=1, setup_cmd="./setup.sh",
             hooks=dict(guard="SWEETPEA_VERIF", enable="no hooks in /repo: contracts wrap the real functions from /verif (source re-parsing, sidecar wrappers, concolic proxies); guard name reserved",
                        baseline_off_cmd=BASE, source_commits=[], add_only=True),
             engines=[dict(name="pyvc", path="/verif/pyvc", serves_properties=sorted(CHECKS),
                           kind_free_text="contract checker for the real Python code: pyvc.wp (AST -> verification conditions, z3/cvc5), pyvc.concolic (real CPython code on symbolic integers), bounded contract evaluation on the real functions")],
             checks=checks,
             notes="See DESIGN.md. fix: commits in /repo are listed in known_findings.json.",
             not_applicable=[dict(property_id=p["id"], reason=na_reasons.get(p["id"], "check not built yet (build in progress)"))
                             for p in props if p["id"] not in CHECKS])
    (ROOT / "MANIFEST.json").write_text(json.dumps(m, indent=1))
    import jsonschema
    jsonschema.validate(m, json.load(open("/root/.vp/MANIFEST.schema.json")))
    print("MANIFEST ok:", len(checks), "checks,", len(m["not_applicable"]), "not applicable")


if __name__ == "__main__":
    main()
