"""debug: unsat core of the hypotheses of a vacuous path.  usage: wpcore.py <contract> <path>"""
import sys
sys.path.insert(0, "/verif")
import z3
from pyvc import wp
from contracts.wpc import W
name, path = sys.argv[1], sys.argv[2]
text, node, g, file, sha = wp.locate(W[name]["target"])
ex = wp.Executor(W[name], W, text, node, g)
vcs = ex.run()
vc = next(v for v in vcs if v.path == path and v.kind in ("post", "inv.preserve"))
hyps = vc.hyps + wp.spec_axioms(vc.hyps)
s = z3.Solver(); s.set("timeout", 20000)
ps = []
for i, h in enumerate(hyps):
    p = z3.Bool(f"h{i}"); ps.append(p); s.add(z3.Implies(p, h))
print(s.check(*ps))
core = s.unsat_core()
for c in core:
    i = int(str(c)[1:]); print(i, str(hyps[i])[:400].replace("\n", " "))
