#!/bin/sh
# tools/seed_confirm.sh <worktree> <outdir> <seed-id>: confirm a sub-agent's seeded change myself (demo passes on /repo, fails in the worktree with the change,
# pinned suite passes with the change) and file it under seeded/<seed-id>/
set -u
wt=$1; out=$2; id=$3
cd "$wt" || exit 2
git diff > /tmp/seed7/$id.cur.diff
cmp -s /tmp/seed7/$id.cur.diff "$out/patch.diff" || { git checkout -q -- . ; git apply "$out/patch.diff" || { echo "patch does not apply"; exit 2; }; }
git -C /repo apply --check "$out/patch.diff" || { echo "does not apply to /repo"; exit 2; }
PYTHONPATH=/repo /venv/bin/python "$out/demo.py" > /tmp/seed7/$id.clean.txt 2>&1; c=$?
PYTHONPATH=$wt /venv/bin/python "$out/demo.py" > /tmp/seed7/$id.changed.txt 2>&1; d=$?
echo "demo clean exit=$c changed exit=$d"
s=$(PYTHONPATH=$wt /venv/bin/python -m pytest -q -p no:cacheprovider -n 8 --timeout=900 2>&1 | tail -1)
echo "suite with change: $s"
[ $c -eq 0 ] && [ $d -ne 0 ] && echo "$s" | grep -q "811 passed" && ! echo "$s" | grep -q failed || { echo "NOT CONFIRMED"; exit 1; }
mkdir -p /verif/seeded/$id
cp "$out/patch.diff" "$out/demo.py" "$out/NOTES.md" /verif/seeded/$id/
tail -5 /tmp/seed7/$id.changed.txt > /verif/seeded/$id/demo_with_change.txt
echo "$s" > /verif/seeded/$id/suite_with_change.txt
echo CONFIRMED
