#!/bin/sh
# tools/revert_check.sh <commit of /repo> <check ids...>: run quick checks against a scratch copy of /repo's package with that commit reverted
# (does a repaired defect get reported again if it returns?)
set -u
c=$1; shift
scratch=/var/tmp/sweetpea-verif-revert-$c-$$; rm -rf "$scratch"; mkdir -p "$scratch"
cp -r /repo/sweetpea "$scratch/sweetpea"; find "$scratch" -name __pycache__ -prune -exec rm -rf {} + 2>/dev/null
( cd "$scratch" && git -C /repo show "$c" -- sweetpea | patch -R -p1 -s ) || { echo "commit $c does not revert cleanly"; rm -rf "$scratch"; exit 2; }
cd /verif
for k in "$@"; do
  r=$(VERIF_REPO=$scratch VERIF_OUT=$scratch/out ./vcheck "$k" quick 2>&1 | grep -E "^VIOLATION|^KNOWN|quick:|CRASH|Traceback" | head -4 | cut -c1-260)
  echo "REVERT $c $k violations=$(echo "$r" | grep -c '^VIOLATION') :: $(echo "$r" | tr '\n' ' ' | cut -c1-700)"
done
rm -rf "$scratch"
