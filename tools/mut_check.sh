#!/bin/sh
# tools/mut_check.sh <path under sweetpea/> <old text> <new text> <check ids...>: run quick checks against a scratch copy of /repo's package with one textual mutation
set -u
f=$1; old=$2; new=$3; shift 3
scratch=/var/tmp/sweetpea-verif-mut-$$; rm -rf "$scratch"; mkdir -p "$scratch"
cp -r /repo/sweetpea "$scratch/sweetpea"; find "$scratch" -name __pycache__ -prune -exec rm -rf {} + 2>/dev/null
OLD="$old" NEW="$new" python3 - "$scratch/sweetpea/$f" <<'P' || { rm -rf "$scratch"; exit 2; }
import os, sys
p = sys.argv[1]; s = open(p).read(); o, n = os.environ["OLD"], os.environ["NEW"]
assert s.count(o) == 1, f"{s.count(o)} occurrences of the old text"
open(p, "w").write(s.replace(o, n))
P
cd /verif
for c in "$@"; do
  r=$(VERIF_REPO=$scratch VERIF_OUT=$scratch/out ./vcheck "$c" quick 2>&1 | grep -E "^VIOLATION|^KNOWN|quick:|CRASH|Traceback" | head -4 | cut -c1-300)
  echo "MUT $c violations=$(echo "$r" | grep -c '^VIOLATION') :: $(echo "$r" | tr '\n' ' ' | cut -c1-600)"
done
rm -rf "$scratch"
