"""Developer driver: verify one or more pyvc.wp contracts and print every obligation.
usage: PYTHONPATH=/verif .venv/bin/python tools/wpdev.py <contract-name>... [--ms N] [--native] [--mutate 'old=>new']"""
import sys
import time

sys.path.insert(0, "/verif")
from pyvc import wp, nativespec          # noqa: E402
from contracts.wpc import W              # noqa: E402


def main():
    args = [a for a in sys.argv[1:] if not a.startswith("--")]
    ms = 10_000
    transform = None
    for i, a in enumerate(sys.argv):
        if a == "--ms":
            ms = int(sys.argv[i + 1])
            args.remove(sys.argv[i + 1])
        if a == "--mutate":
            old, new = sys.argv[i + 1].split("=>")
            args.remove(sys.argv[i + 1])
            transform = (lambda o, n: (lambda s: s.replace(o, n) if o in s else (_ for _ in ()).throw(RuntimeError("mutation pattern not found"))))(old, new)
    bad = 0
    for name in args:
        t = time.time()
        r = wp.verify(W[name], W, ms, transform=transform)
        print(f"== {name}: error={r['error']} dropped={r['dropped']} partial={r.get('partial_loops')} secs={time.time() - t:.1f}")
        folded = {}
        for v in r["vcs"]:
            folded.setdefault(v.oid, []).append(v)
        for oid, vs in folded.items():
            sts = [v.status for v in vs]
            st = "refuted" if "refuted" in sts else ("proved" if all(s == "proved" for s in sts) else "undecided")
            if st != "proved":
                bad += 1
            print(f"  {st:9s} {oid:60s} paths={len(vs)} {sum(v.secs for v in vs):.2f}s {vs[0].backend}" + ("" if st == "proved" else f"   :: {vs[0].note[:120]}"))
            if st != "proved":
                for v in vs:
                    if v.status != "proved":
                        print(f"      path={v.path} status={v.status}")
                        if v.model is not None and "--model" in sys.argv:
                            print("      model:", str(v.model)[:1500])
        print(f"  obligations={len(folded)}")
        if "--native" in sys.argv:
            n, ok, fail = nativespec.check_native(W[name])
            print(f"  native: {n} inputs, {ok} ok, failure={fail}")
            if fail:
                bad += 1
    sys.exit(1 if bad else 0)


main()
