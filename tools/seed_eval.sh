#!/bin/sh
# tools/seed_eval.sh <seed-id> <worktree> <check ids...>
# 1. confirms the seeded change in its scratch worktree (demo passes without, fails with; whole suite passes with it)
# 2. stores it under seeded/<seed-id>/
# 3. runs the named checks against a scratch copy of /repo's package with the patch applied (VERIF_REPO), then removes the copy
set -u
id=$1; wt=$2; shift 2
out=/verif/seeded/$id; mkdir -p "$out"
cd "$wt" || exit 2
git checkout -q -- sweetpea
/venv/bin/python demo.py >/dev/null 2>&1; a=$?
git apply patch.diff || { echo "patch does not apply"; exit 2; }
/venv/bin/python demo.py > "$out/demo_with_change.txt" 2>&1; b=$?
t=$(/venv/bin/python -m pytest -q -p no:cacheprovider --timeout=900 -n 6 2>&1 | tail -1)
git checkout -q -- sweetpea
echo "CONFIRM demo without change: exit $a; with change: exit $b; suite with change: $t"
cp patch.diff demo.py "$out/"; [ -f NOTES.md ] && cp NOTES.md "$out/"
scratch=/var/tmp/sweetpea-verif-seed-$id; rm -rf "$scratch"; mkdir -p "$scratch"
cp -r /repo/sweetpea "$scratch/sweetpea"; find "$scratch" -name __pycache__ -prune -exec rm -rf {} + 2>/dev/null
( cd "$scratch" && patch -p1 -s < "$out/patch.diff" ) || { echo "patch does not apply to the current /repo"; rm -rf "$scratch"; exit 2; }
cd /verif
for c in "$@"; do
  r=$(VERIF_REPO=$scratch VERIF_OUT=$scratch/out ./vcheck "$c" quick 2>&1 | grep -E "^VIOLATION|^KNOWN|quick:|CRASH" | head -3 | cut -c1-300)
  n=$(echo "$r" | grep -c '^VIOLATION')
  echo "CHECK $c violations=$n :: $(echo "$r" | tr '\n' ' ' | cut -c1-500)"
done
rm -rf "$scratch"
