#!/bin/sh
# tools/seed_matrix.sh [seed ids...]: run every seeded change against the check of the property it breaks (quick tier); one line per seed
cd /verif
ids="$@"; [ -n "$ids" ] || ids=$(ls seeded | grep -E '^C[0-9]+-')
for id in $ids; do
  p=$(echo $id | cut -d- -f1)
  tools/seed_check.sh $id $p 2>&1 | sed -E 's/KNOWN-FINDING[^V]*//g' | cut -c1-330
done
