"""Deliberately broken variants of the real code (textual patches applied to a scratch copy)."""
CNF = "sweetpea/_internal/core/cnf.py"
MUTANTS = [
    dict(id="c12-fa-sum-literal", property="C12", file=CNF,
         old="s_val     = (~a | ~b | cin) & (~a | b | ~cin) & (a | ~b | ~cin) & (a | b | cin)",
         new="s_val     = (~a | ~b | cin) & (~a | b | ~cin) & (a | ~b | ~cin) & (a | b | ~cin)"),
    dict(id="c12-ha-carry-or", property="C12", file=CNF,
         old="        c_val = CNF.and_vars(a, b)\n", new="        c_val = CNF.or_vars(a, b)\n"),
    dict(id="c12-sat-off-by-one", property="C12", file=CNF,
         old="            if i+1 == saturate_at:", new="            if i+2 == saturate_at:"),
    dict(id="c12-popcount-no-zero-out", property="C12", file=CNF,
         old="        self.zero_out(aux_list)\n        # Now we can start", new="        # Now we can start"),
    dict(id="c12-ripple-carry-dropped", property="C12", file=CNF,
         old="            s_accum.append(s)\n            cin = c\n\n        return (cast(Var, cin), s_accum)",
         new="            s_accum.append(s)\n            cin = c if len(s_accum) != 3 else None\n\n        return (cast(Var, cin), s_accum)"),
    dict(id="c12-extra-free-var", property="C12", file=CNF,
         old="        s = self.get_fresh()\n\n        if (cin):", new="        s = self.get_fresh()\n        if cin: s = self.get_fresh()\n\n        if (cin):"),
    dict(id="c12-saturate-drops-cin", property="C12", file=CNF,
         old="            s_val     = CNF(a | b | cin)\n            s_neg_val = (~a & ~b & ~cin)", new="            s_val     = CNF(a | b)\n            s_neg_val = (~a & ~b)"),
]
UTIL = "sweetpea/_internal/core/generate/utility.py"
MUTANTS += [
    dict(id="c10-revert-d1-eq", property="C10", file=CNF,
         old="        if in_list and k > len(in_list):\n", new="        if False:\n"),
    dict(id="c10-revert-d1-gt", property="C10", file=CNF,
         old="        if in_list and not assert_less_than and k >= len(in_list):", new="        if in_list and not assert_less_than and k > len(in_list):"),
    dict(id="c10-revert-d1-lt", property="C10", file=CNF,
         old="        if in_list and assert_less_than and k > len(in_list):", new="        if in_list and assert_less_than and k > len(in_list) + 1:"),
    dict(id="c10-pad-one-short", property="C10", file=CNF,
         old="zero_padding = self.get_n_fresh(len(ys) - len(xs) + 1)", new="zero_padding = self.get_n_fresh(len(ys) - len(xs))"),
    dict(id="c10-sign-bit-wrong-end", property="C10", file=CNF,
         old="        self.set_to_one(ss[-1])", new="        self.set_to_one(ss[0])"),
    dict(id="c10-dispatch-swap", property="C10", file=UTIL,
         old="            fresh_cnf.assert_k_less_than_n(request.k, request.boolean_values)", new="            fresh_cnf.assert_k_greater_than_n(request.k, request.boolean_values)"),
    dict(id="c10-twos-complement-no-plus-one", property="C10", file=CNF,
         old="        self.set_to_one(one_vars[-1])", new="        self.set_to_zero(one_vars[-1])"),
    dict(id="c10-eq-padding-sign", property="C10", file=CNF,
         old="        left_padded += [-1 for _ in range(len(sum_bits) - len(left_padded))]", new="        left_padded += [1 for _ in range(len(sum_bits) - len(left_padded))]"),
    dict(id="c10-int-to-binary-parity", property="C10", file="sweetpea/_internal/core/binary.py",
         old="        if value % 2 == 0:", new="        if value % 2 == 0 and value != 6:"),
]

# ---- the tree without one of the repairs (each must be caught by the check of the property it was found under)
for _pid, _commit, _what in [
        ("C26", "97da54f", "window-clamp"), ("C02", "97da54f", "window-clamp"), ("C08", "058f126", "short-window-indexerror"),
        ("C07", "00d4dd9", "complex-varlists"), ("C26", "00d4dd9", "complex-varlists"), ("C07", "0d18af2", "pin-undefined"),
        ("C07", "5761deb", "strided-runs"), ("C07", "dee2414", "sequential-sustain"), ("C28", "643f6e1", "opb-gt"),
        ("C11", "acbf03f", "naive-switching-raise"), ("C16", "6cbce0c", "duplicate-derived"), ("C29", "0ce6ea3", "smgen-refusal"),
        ("C16", "0ce6ea3", "smgen-refusal"), ("C17", "517536f", "mismatch-hidden"), ("C29", "b256ab8", "smgen-derived-dep"),
        ("C24", "03b83f1", "merge-alignment"), ("C18", "3582d34", "shared-constraint"), ("C19", "c7da064", "print-mutates"),
        ("C10", "c746387", "cardinality-range")]:
    MUTANTS.append(dict(id=f"revert-{_what}-{_pid}", property=_pid, revert=_commit))

CON = "sweetpea/_internal/constraint.py"
XB = "sweetpea/_internal/cross_block.py"
BLK = "sweetpea/_internal/block.py"
COMB = "sweetpea/_internal/combinatorics.py"
MUTANTS += [
    # geometry / scoping
    dict(id="c26-step-ignores-preamble", property="C26", file=XB, old="            step = within_block.num_trials - within_block.preamble_size", new="            step = within_block.num_trials"),
    dict(id="c01-cross-partial-chunk-eq", property="C02", file=CON, old='                reqs.append(LowLevelRequest("LT", weight*crossing_weight+1, variables))', new='                reqs.append(LowLevelRequest("LT", weight*crossing_weight+2, variables))'),
    dict(id="c01-atmost-k", property="C01", file=CON, old='            backend_request.ll_requests += list(map(lambda l: LowLevelRequest("LT", self.k + 1, l), sublists))',
         new='            backend_request.ll_requests += list(map(lambda l: LowLevelRequest("LT", self.k + 2, l), sublists))'),
    dict(id="c04-atleast-checker-lenient", property="C04", file=CON, old="        return self._potential_counts_conform_individually(counts, op.ge)", new="        return self._potential_counts_conform_individually(counts[1:], op.ge)"),
    dict(id="c17-exactlyk-checker", property="C17", file=CON, old="        return sum(counts) == self.k", new="        return sum(counts) >= self.k"),
    dict(id="c14-decode-offset", property="C14", file=BLK, old="                    return tuples[(variable - start) % len(f.levels)]", new="                    return tuples[(variable - start + 1) % len(f.levels)]"),
    dict(id="c16-min-trials-max", property="C16", file=CON, old="            block.min_trials = max([block.min_trials, self.trials])", new="            block.min_trials = min([block.min_trials, self.trials])"),
    dict(id="c13-inversion-radix", property="C13", file=COMB, old="    for k in range(n, n-m, -1):\n        result = j % k", new="    for k in range(n, n-m, -1):\n        result = j % (k if k > 2 else k + 1)"),
    dict(id="c13-extract-order", property="C13", file=COMB, old="        components.append(n % s)\n        n //= s", new="        components.append(n % s)\n        n = n // s if s != 3 else n // 2"),
    dict(id="c05-permcopies-count", property="C13", file=COMB, old="    return factorial(sum(counters)) // d", new="    return factorial(sum(counters)) // d if sum(counters) != 5 else factorial(5) // d + 1"),
    dict(id="c27-update-header", property="C27", file="sweetpea/_internal/core/generate/sample_non_uniform.py", old="    negated_solution = [-1 * var for var in solution]", new="    negated_solution = [-1 * var for var in solution[:-1]] if len(solution) > 7 else [-1 * var for var in solution]"),
    dict(id="c27-ind-chunk", property="C27", file="sweetpea/_internal/core/cnf.py", old="for idx in range(0, len(support_set), 10)]", new="for idx in range(0, len(support_set) - 1, 10)]"),
    dict(id="c20-dicts-key-order", property="C20", file="sweetpea/_internal/main.py", old="        tuple_lists.append([dict(zip(keys, values)) for values in zip(*[experiment[key] for key in keys])])",
         new="        tuple_lists.append([dict(zip(keys, values)) for values in zip(*[experiment[key] for key in sorted(keys)])])"),
    dict(id="c21-percent-denominator", property="C21", file="sweetpea/_internal/main.py", old="            proportion = frequency / num_trials", new="            proportion = frequency / len(e[list(e.keys())[0]])"),
    dict(id="c22-window-offbyone", property="C22", file="sweetpea/_internal/primitive.py", old="                    factor_idx[-k] = dependent_dict[f.name][idx-k]\n                outlist.append(factor_idx)\n        if len(outlist)<2:",
         new="                    factor_idx[-k] = dependent_dict[f.name][idx-k] if k < 2 else dependent_dict[f.name][idx-k+1]\n                outlist.append(factor_idx)\n        if len(outlist)<2:"),
    dict(id="c23-desugar-copies", property="C23", file="sweetpea/_internal/primitive.py", old="        derived_f = DerivedFactor(HiddenName(cast(str, self.name)), list(derived_levels.values()))",
         new="        derived_f = DerivedFactor(HiddenName(cast(str, self.name)), list(derived_levels.values()))\n        flat_f.levels = flat_f.levels[:-1] if len(flat_f.levels) > 3 else flat_f.levels"),
    dict(id="c06-random-exhaust", property="C06", file="sweetpea/_internal/sampling_strategy/random.py", old="            if len(used_keys) == possible_keys:\n                break", new="            if len(used_keys) >= possible_keys - 1 and possible_keys > 20:\n                break"),
    dict(id="c25-nest-sustain", property="C25", file=XB, old="        outer_sustain_counts = [inner_len * sc for sc in outer_block.crossing_sustain_counts]", new="        outer_sustain_counts = [max(1, inner_len - 1) * sc for sc in outer_block.crossing_sustain_counts]"),
    dict(id="c15-overlap-not-rejected", property="C15", file="sweetpea/_internal/derivation_processor.py", old="                        if level_tuple in according_level:\n                            raise ValueError(", new="                        if level_tuple in according_level and len(factor.levels) > 2:\n                            raise ValueError("),
    dict(id="c03-tseitin-iff-missing-clause", property="C03", file="sweetpea/_internal/logic.py", old="            clauses.append(Or([Not(new_p), Not(new_q),     new_rep ]))\n", new=""),
]
