"""Deliberately broken variants of the real code (textual patches applied to a scratch copy)."""
CNF = "sweetpea/_internal/core/cnf.py"
MUTANTS = [
    dict(id="c12-fa-sum-literal", property="C12", file=CNF,
         old="s_val     = (~a | ~b | cin) & (~a | b | ~cin) & (a | ~b | ~cin) & (a | b | cin)",
         new="s_val     = (~a | ~b | cin) & (~a | b | ~cin) & (a | ~b | ~cin) & (a | b | ~cin)"),
    dict(id="c12-ha-carry-or", property="C12", file=CNF,
         old="        c_val = CNF.and_vars(a, b)\n", new="        c_val = CNF.or_vars(a, b)\n"),
    dict(id="c12-sat-off-by-one", property="C12", file=CNF,
         old="            if i+1 == saturate_at:", new="            if i+2 == saturate_at:"),
    dict(id="c12-popcount-no-zero-out", property="C12", file=CNF,
         old="        self.zero_out(aux_list)\n        # Now we can start", new="        # Now we can start"),
    dict(id="c12-ripple-carry-dropped", property="C12", file=CNF,
         old="            s_accum.append(s)\n            cin = c\n\n        return (cast(Var, cin), s_accum)",
         new="            s_accum.append(s)\n            cin = c if len(s_accum) != 3 else None\n\n        return (cast(Var, cin), s_accum)"),
    dict(id="c12-extra-free-var", property="C12", file=CNF,
         old="        s = self.get_fresh()\n\n        if (cin):", new="        s = self.get_fresh()\n        if cin: s = self.get_fresh()\n\n        if (cin):"),
    dict(id="c12-saturate-drops-cin", property="C12", file=CNF,
         old="            s_val     = CNF(a | b | cin)\n            s_neg_val = (~a & ~b & ~cin)", new="            s_val     = CNF(a | b)\n            s_neg_val = (~a & ~b)"),
]
