"""Must-fail self-tests: every mutant is a scratch copy of /repo's sweetpea package with one textual change;
the named check must exit 1 with a VIOLATION line on it (and the unchanged copy must pass).
usage: python -m selftest.run_mutants [ids or property ids ...] [-j N] [--tier quick|thorough]"""
import concurrent.futures as cf
import json, os, shutil, subprocess, sys, tempfile, time
from pathlib import Path

ROOT = Path(__file__).resolve().parent.parent
REPO = Path(os.environ.get("VERIF_REPO_SRC", "/repo"))


def load():
    from selftest.mutants import MUTANTS
    return MUTANTS


def run_one(m, tier):
    d = Path(tempfile.mkdtemp(prefix="sweetpea-verif-mut-", dir="/var/tmp"))
    try:
        shutil.copytree(REPO / "sweetpea", d / "sweetpea", ignore=shutil.ignore_patterns("__pycache__"))
        if "revert" in m:       # the mutant is the tree without one of the fix: commits
            diff = subprocess.run(["git", "-C", str(REPO), "diff", m["revert"] + "^", m["revert"], "--", "sweetpea"], capture_output=True, text=True).stdout
            r = subprocess.run(["patch", "-R", "-p1", "-s", "-d", str(d)], input=diff, capture_output=True, text=True)
            if r.returncode != 0:
                return m["id"], "BROKEN-MUTANT", (r.stdout + r.stderr)[-300:]
        else:
            f = d / m["file"]
            src = f.read_text()
            if src.count(m["old"]) != 1:
                return m["id"], "BROKEN-MUTANT", f"pattern occurs {src.count(m['old'])} times"
            f.write_text(src.replace(m["old"], m["new"]))
        env = dict(os.environ, VERIF_REPO=str(d), VERIF_OUT=str(d / "out"))
        t = time.time()
        r = subprocess.run([str(ROOT / "vcheck"), m["property"], tier], capture_output=True, text=True, env=env, timeout=3600)
        viol = [l for l in r.stdout.splitlines() if l.startswith("VIOLATION")]
        ok = r.returncode == 1 and viol
        return m["id"], "caught" if ok else f"MISSED(exit {r.returncode})", (viol[:2] or r.stdout.splitlines()[-3:] + r.stderr.splitlines()[-3:]), round(time.time() - t, 1)
    finally:
        shutil.rmtree(d, ignore_errors=True)


def main():
    args = [a for a in sys.argv[1:]]
    tier, jobs, sel = "quick", 8, []
    i = 0
    while i < len(args):
        if args[i] == "-j":
            jobs = int(args[i + 1]); i += 2
        elif args[i] == "--tier":
            tier = args[i + 1]; i += 2
        else:
            sel.append(args[i]); i += 1
    ms = [m for m in load() if not sel or m["id"] in sel or m["property"] in sel]
    bad = 0
    with cf.ThreadPoolExecutor(jobs) as ex:
        for res in ex.map(lambda m: run_one(m, tier), ms):
            print(*res)
            if res[1] != "caught":
                bad += 1
    print(f"{len(ms) - bad}/{len(ms)} mutants caught")
    sys.exit(1 if bad else 0)


if __name__ == "__main__":
    main()
