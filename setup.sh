#!/bin/sh
# Build the overlay Python 3.12 venv offline (z3, cvc5, crosshair, deal, icontract, jsonschema
# from the wheelhouse; sweetpea and its deps from /venv through a .pth).  Idempotent.
set -e
cd "$(dirname "$0")"
V=.venv
if [ ! -x "$V/bin/python" ] || ! "$V/bin/python" -c 'import z3, cvc5, jsonschema, sweetpea, pycryptosat' 2>/dev/null; then
  rm -rf "$V"
  /venv/bin/python -m venv "$V"
  PIP_NO_INDEX=1 "$V/bin/pip" install -q --no-index --find-links /opt/veriftools/wheels \
      z3-solver cvc5 crosshair-tool deal icontract jsonschema >/dev/null
  SP=$("$V/bin/python" -c 'import site; print(site.getsitepackages()[0])')
  echo "import site; site.addsitedir('/venv/lib/python3.12/site-packages')" > "$SP/zz_repo_venv.pth"
  "$V/bin/python" -c 'import z3, cvc5, jsonschema, sweetpea, pycryptosat'
fi
mkdir -p .work evidence replays
echo "setup ok"
