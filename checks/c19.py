"""C19 — a block stays usable and unchanged across library calls (main.py, block.py)."""
import itertools
import os
import random
import tempfile
import time

from pyvc.report import Check, run_check, seed, WORK
from checks import sys_common as SC
from spec import model, runner, designs as DS

CALLS = ["synth:IterateSATGen", "synth:RandomGen", "synth:IterateGen", "synth:SMGen", "synth:CMSGen", "print", "tabulate", "csv", "tuples", "dicts", "mismatch"]


def blocks_for(tier):
    """(name, builder -> (block, description or None))"""
    cur = {d["name"]: d for d in DS.curated()}
    names = ["cross-2x2", "w-uncrossed", "within-uncrossed", "transition-crossed", "atmost1-c", "repeat-atmost-inner-min5", "nest-2in2", "merge-2v3-repeat", "window2-stride2", "w2-derived-crossed", "w-crossed-2x2"]
    out = [(n, ("desc", cur[n])) for n in names]
    out += [("continuous-plain", ("cont", 0)), ("continuous-derived", ("cont", 1)), ("continuous-window", ("cont", 2)), ("continuous-constraint", ("cont", 3))]
    return out


def build_cont(k):
    import sweetpea as sp
    c = sp.Factor("c", ["r", "g"])
    d = sp.Factor("d", ["x", "y"])
    t = sp.ContinuousFactor("t", distribution=sp.UniformDistribution(0, 1))
    if k == 0:
        return sp.CrossBlock([c, d, t], [c, d], [])
    if k == 1:
        u = sp.ContinuousFactor("u", distribution=sp.CustomDistribution(lambda x: x + 1, [t]))
        return sp.CrossBlock([c, t, u], [c], [sp.MinimumTrials(3)])
    if k == 2:
        w = sp.ContinuousFactorWindow([t], 2)
        u = sp.ContinuousFactor("u", distribution=sp.CustomDistribution(lambda win: 0.0 if win[-1] != win[-1] else win[0] - win[-1], [w]))
        return sp.CrossBlock([c, d, t, u], [c, d], [])
    u = sp.ContinuousFactor("u", distribution=sp.UniformDistribution(0, 1))
    from sweetpea._internal.constraint import ContinuousConstraint   # documented as sweetpea.ContinuousConstraint but missing from __all__
    return sp.CrossBlock([c, t, u], [c], [ContinuousConstraint([t, u], lambda a, b: a + b < 1.5), sp.MinimumTrials(3)])


def snapshot(block):
    def nm(f):
        return str(getattr(f, "name", f))
    return dict(design=[nm(f) for f in block.design], orig_design=[nm(f) for f in block.orig_design],
                crossings=[[nm(f) for f in c] for c in block.crossings], constraints=[type(c).__name__ for c in block.constraints],
                continuous=[nm(f) for f in block.continuous_factors], exclude=[(nm(f), nm(l)) for f, l in block.exclude],
                min_trials=block.min_trials, act_design=[nm(f) for f in block.act_design], errors=sorted(block.errors),
                levels={nm(f): [nm(l) for l in getattr(f, "levels", [])] for f in block.design})


def _eval(arg):
    name, spec, history, workdir, first_ok = arg
    import sweetpea as sp
    out = {"name": name, "history": list(history)}
    kind, payload = spec
    desc = payload if kind == "desc" else None
    block = model.build(desc)[0] if desc else build_cont(payload)
    os.makedirs(workdir, exist_ok=True)
    cwd = os.getcwd()
    os.chdir(workdir)
    try:
        first = runner.synth(block, 3, "IterateSATGen")
        keys0 = sorted(map(str, first[0].keys())) if first else None
        snap0 = snapshot(block)
        exps = first
        for call in history:
            before = snapshot(block)
            try:
                if call.startswith("synth:"):
                    exps = runner.synth(block, 2, call.split(":")[1]) or exps
                elif call == "print":
                    runner.quiet(sp.print_experiments, block, exps)
                elif call == "tabulate":
                    if len(block.crossings) == 1:
                        runner.quiet(sp.tabulate_experiments, block, exps)
                    else:
                        runner.quiet(sp.tabulate_experiments, None, exps, [f for f in block.orig_design if hasattr(f, "levels") and not isinstance(f, sp.ContinuousFactor)][:1])
                elif call == "csv":
                    runner.quiet(sp.save_experiments_csv, block, exps, "c19")
                elif call == "tuples":
                    sp.experiments_to_tuples(block, exps)
                elif call == "dicts":
                    sp.experiments_to_dicts(block, exps)
                elif call == "mismatch":
                    for e in exps[:2]:
                        sp.sample_mismatch_experiment(block, {k: v for k, v in e.items() if not isinstance(v[0], float)} if kind == "cont" else e)
            except Exception as e:
                out.setdefault("call_errors", []).append([call, type(e).__name__, str(e)[:200]])
                if call.startswith("synth:") and first_ok.get(call):
                    # "every later synthesize_trials call succeeds": the same call succeeds as the FIRST call on a block of the same design in a
                    # process of its own (stage 0), so this failure is damage done by the history, not the strategy's refusal of the design
                    out.setdefault("synth_failed", []).append([call, type(e).__name__, str(e)[:200]])
            after = snapshot(block)
            if after != before:
                diff = {k: [before[k], after[k]] for k in before if before[k] != after[k]}
                out.setdefault("changed", []).append([call, {k: str(v)[:300] for k, v in diff.items()}])
        # afterwards the block must still synthesize valid sequences with the same columns
        try:
            last = runner.synth(block, 3, "IterateSATGen")
            out["last_n"], out["first_n"] = len(last), len(first)
            out["keys_same"] = (sorted(map(str, last[0].keys())) if last else None) == keys0
            bad = []
            if desc is not None:
                try:
                    geo = model.geometry(desc)
                    for e in last:
                        if model.classify(desc, {f: list(e[f]) for f in geo["design"]}, geo) == model.INVALID:
                            bad.append(e)
                except model.Unsupported:
                    pass
            else:
                T = block.trials_per_sample()
                for e in last:
                    if any(len(v) != T for v in e.values()):
                        bad.append(e)
            out["invalid"] = [str(b)[:300] for b in bad[:1]]
        except Exception as e:
            out["final_exception"] = [type(e).__name__, str(e)[:300]]
    finally:
        os.chdir(cwd)
        for f in os.listdir(workdir):
            try:
                os.unlink(os.path.join(workdir, f))
            except OSError:
                pass
    return out


def _first(arg):
    """stage 0: does strategy S succeed as the very first library call on a fresh block, in a process of its own?"""
    name, spec, call = arg
    kind, payload = spec
    try:
        block = model.build(payload)[0] if kind == "desc" else build_cont(payload)
        runner.synth(block, 2, call.split(":")[1])
        return True
    except Exception:
        return False


def main(tier):
    ck = Check("C19", tier, "exploration",
               "Histories of library calls on one block: for blocks of D (incl. Repeat, Merge, Nest, weighted, windowed) and blocks with continuous factors, every "
               "call sequence of the stated length over synthesize_trials (IterateSATGen, RandomGen, IterateGen, SMGen, CMSGen), print_experiments, tabulate_experiments, save_experiments_csv, "
               "experiments_to_tuples/dicts and sample_mismatch_experiment is executed; a ghost snapshot of the block's design-relevant state is compared "
               "before/after every call (frame condition: only caches may change), and afterwards synthesize_trials must succeed, return valid sequences and "
               "the same columns as the first call.")
    L = 2 if tier == "quick" else 3
    rng = random.Random(seed())
    args = []
    WORK.mkdir(exist_ok=True)
    synth_calls = [c for c in CALLS if c.startswith("synth:")]
    fargs = [(name, spec, c) for name, spec in blocks_for(tier) for c in synth_calls]
    fres = runner.pmap(_first, fargs, jobs=14, timeout=120)
    first_ok = {}
    for (name, spec, c), (st, r) in zip(fargs, fres):
        first_ok.setdefault(name, {})[c] = (st == "ok" and r is True)
    ck.extra["first_call_succeeds"] = first_ok
    for name, spec in blocks_for(tier):
        hists = list(itertools.product(CALLS, repeat=L))
        rng.shuffle(hists)
        # every single call and every ordered pair that starts with a non-synthesis call is included; the rest is sampled
        # all single calls, every strategy called twice in a row and twice with another strategy in between (state kept between runs of one strategy)
        synths = [c for c in CALLS if c.startswith("synth:")]
        chosen = [(c,) for c in CALLS] + [(c, c) for c in synths] + hists[:(20 if tier == "quick" else 200)]
        if L >= 3:
            chosen += [(c, o, c) for c in synths for o in synths if o != c]
        for i, h in enumerate(chosen):
            args.append((name, spec, h, str(WORK / f"c19-{os.getpid()}-{len(args)}"), first_ok[name]))
    res = runner.pmap(_eval, args, jobs=14, timeout=120)
    for (name, spec, h, wd, _fo), (st, r) in zip(args, res):
        oid = f"C19.history({name},{'>'.join(h)})"
        try:
            os.rmdir(wd)
        except OSError:
            pass
        if st != "ok":
            ck.oblig(oid, "E", "undecided", detail=f"worker {st}: {str(r)[:200]}")
            continue
        ck.count((name, h))
        bad = None
        if r.get("changed"):
            call, diff = r["changed"][0]
            bad = ("frame", f"call {call} changed the block: {diff}")
        elif r.get("synth_failed"):
            c_, en, em = r["synth_failed"][0]
            bad = ("unusable", f"{c_} raised {en}: {em} after earlier calls on the same block, but succeeds as the first call on a fresh block of the same design in a process of its own")
        elif "final_exception" in r:
            bad = ("unusable", f"synthesize_trials after the history raised {r['final_exception']}")
        elif r.get("invalid"):
            bad = ("invalid", f"synthesize_trials after the history returned an invalid sequence {r['invalid'][0]}")
        elif r.get("keys_same") is False:
            bad = ("columns", "synthesize_trials after the history returned different columns than the first call")
        elif r.get("last_n") != r.get("first_n"):
            bad = ("count", f"first call returned {r.get('first_n')} sequences, after the history {r.get('last_n')}")
        ck.oblig(oid, "E", "passed" if not bad else "failed", detail=None if not bad else bad[1][:300])
        if r.get("call_errors"):
            ck.extra.setdefault("call_errors", []).append([name, list(h), r["call_errors"][:1]])
        if bad:
            first_call = (r["changed"][0][0] if r.get("changed") else h[-1])
            ck.violation(f"C19.{bad[0]}", f"{bad[0]}:{name}:{first_call}", f"block {name}, history {list(h)}: {bad[1][:400]}",
                         dict(replay_kind="history", block=name, history=list(h)), tags=dict(kind=bad[0], block=name, call=first_call))
        ck.sample(dict(block=name, history=list(h)))
    ck.rule = f"one case per (block, call sequence of length <= {L}); all single calls, {25 if tier == 'quick' else 200} seeded longer sequences per block; 15 blocks incl. 4 with continuous factors; a synthesize_trials call that raises inside a history is a violation iff the same call succeeds first on a fresh block"
    ck.trust("CPython")
    ck.assume("design-relevant state = design, orig_design, crossings, constraint classes, continuous factors, exclusions, min_trials, act_design, errors, level names (caches are allowed to change)")
    return ck.finish()


if __name__ == "__main__":
    run_check(main)
