"""C21 — tabulation counts are exact (main.tabulate_experiments, observed on captured stdout)."""
import contextlib
import io
import itertools
import random
import re

from pyvc.report import Check, run_check, seed


def parse(text, nfac):
    """-> list of experiments, each a list of (levels tuple, frequency, percentage)"""
    exps, cur = [], None
    for line in text.splitlines():
        if line.startswith("Experiment "):
            cur = []
            exps.append(cur)
            continue
        if not line.strip() or cur is None:
            continue
        cells = [c.strip() for c in line.split("|")]
        if len(cells) != nfac + 2:
            raise ValueError(f"unexpected row {line!r}")
        lv = tuple(c.split(" ", 1)[1] if " " in c else "" for c in cells[:nfac])
        fr = int(cells[nfac].split()[1])
        pc = float(cells[nfac + 1].split()[1].rstrip("%"))
        cur.append((lv, fr, pc))
    return exps


def main(tier):
    import sweetpea as sp
    ck = Check("C21", tier, "exploration",
               "Contract on the captured stdout of the real tabulate_experiments: for every experiment and every combination of levels of the selected factors "
               "the printed frequency equals the number of selected trials having that combination, and the printed percentage (parsed as float) equals "
               "100*frequency/number of selected trials within 1e-9 relative; every combination is printed exactly once. Inputs: seeded experiment lists over "
               "1-3 factors with 2-3 levels (incl. level names with spaces whose concatenations coincide across combinations, experiments of different lengths under the default selection, trials whose value is '' or a level the selected Factor does not list), trial selections None / prefixes / strided / repeated indices, with a block and with an explicit factor list. "
               "The contract requires at least one selected trial (a percentage of nothing is undefined).")
    ck.under_contract("sweetpea._internal.main:tabulate_experiments")
    rng = random.Random(seed())
    fails = 0
    n_cases = 300 if tier == "quick" else 3000
    for case in range(n_cases):
        nf = rng.randint(1, 3)
        if rng.random() < 0.3:
            # level names with spaces whose concatenations collide across combinations: ("a", "b c") and ("a b", "c") both read "a b c"
            pool = ["a", "a b", "b", "b c", "c", "a b c", "c a"]
            facs = [sp.Factor(f"f{i}", rng.sample(pool, rng.randint(2, 3))) for i in range(nf)]
        else:
            facs = [sp.Factor(f"f{i}", [f"l{i}{j}" for j in range(rng.randint(2, 3))]) for i in range(nf)]
        T = rng.randint(1, 7)
        nexp = rng.randint(1, 3)
        # experiments of different lengths (lists of experiments from different blocks): only with the default selection "all trials of that experiment"
        ragged = rng.random() < 0.3
        Ts = [rng.randint(1, 7) if ragged else T for _ in range(nexp)]
        if len(set(Ts)) == 1:
            Ts = [T] * nexp
        # values outside the tabulated level lists occur in practice: '' where a derived factor has no level (before its start, stride-skipped),
        # or levels that the caller's Factor does not list; such trials are selected trials that match no row
        extra = rng.choice([[], [], [""], ["other"], ["", "other"]])
        exps = [{f.name: [rng.choice([l.name for l in f.levels] + extra) for _ in range(Te)] for f in facs} for Te in Ts]
        if extra and rng.random() < 0.5:
            for e in exps:                      # the typical shape: a preamble trial without level
                if len(e[facs[0].name]) > 1:
                    e[facs[0].name][0] = extra[0]
        sel = rng.sample(facs, rng.randint(1, nf))
        mode = "none" if ragged and len(set(Ts)) > 1 else rng.choice(["none", "prefix", "stride", "repeat"])
        trials = {"none": None, "prefix": list(range(rng.randint(1, T))), "stride": list(range(0, T, 2)), "repeat": [rng.randrange(T) for _ in range(rng.randint(1, 6))]}[mode]
        use_block = len(sel) == nf and rng.random() < 0.4
        buf = io.StringIO()
        try:
            with contextlib.redirect_stdout(buf):
                if use_block:
                    blk = sp.CrossBlock(facs, facs, [], False)
                    sel = facs
                    sp.tabulate_experiments(blk, exps, None, None if trials is None else list(trials))
                else:
                    sp.tabulate_experiments(None, exps, sel, None if trials is None else list(trials))
            rows = parse(buf.getvalue(), len(sel))
        except Exception as e:
            fails += 1
            if fails <= 3:
                ck.violation("C21.stdout", f"case:{mode}:raise", f"tabulate_experiments raised {e!r}", dict(experiments=exps, factors=[f.name for f in sel], trials=trials))
            continue
        bad = None
        if len(rows) != nexp:
            bad = f"{len(rows)} tables for {nexp} experiments"
        for e, tab, Te in zip(exps, rows, Ts):
            use = list(range(Te)) if trials is None else trials          # default: all trials of THAT experiment
            combos = list(itertools.product(*[[l.name for l in f.levels] for f in sel]))
            if sorted(r[0] for r in tab) != sorted(combos):
                bad = f"combinations printed {sorted(r[0] for r in tab)[:3]}... expected each of {len(combos)} once"
                break
            for lv, fr, pc in tab:
                want = sum(1 for t in use if all(e[f.name][t] == v for f, v in zip(sel, lv)))
                if fr != want:
                    bad = f"combination {lv}: printed frequency {fr}, counted {want} of the selected trials {use}"
                elif abs(pc - 100.0 * want / len(use)) > 1e-9 * max(1.0, abs(pc)):
                    bad = f"combination {lv}: printed {pc}%, expected {100.0 * want / len(use)}%"
        ck.count((case, mode))
        if bad:
            fails += 1
            if fails <= 3:
                ck.violation("C21.stdout", f"case:{mode}:{'block' if use_block else 'factors'}:{'ragged' if len(set(Ts)) > 1 else 'equal'}", f"tabulate_experiments: {bad}",
                             dict(experiments=exps, factors=[f.name for f in sel], trials=trials, stdout=buf.getvalue()[:600]))
    ck.oblig("C21.stdout(all cases)", "E", "passed" if not fails else "failed", detail=f"{n_cases} seeded cases")
    ck.sample(dict(factors=2, trials="[0, 2, 4]", experiments=2, parsed_rows="(levels, frequency, percentage)"))
    ck.rule = "one case per seeded (experiments, factor selection, trial selection); non-trivial = distinct case"
    ck.trust("the stdout parser in this file", "float parsing of the printed percentage")
    ck.assume("at least one selected trial", "level names without '|'")
    return ck.finish()


if __name__ == "__main__":
    run_check(main)
