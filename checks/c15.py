"""C15 — derived factors must be total, unambiguous functions of their window (derivation_processor.py, primitive.py)."""
import itertools
import random

from pyvc.report import Check, run_check, seed
from pyvc.smt import budget_ms
from checks import sys_common as SC
from checks.wp_common import run_wp
from spec import model, runner, designs as DS

A2 = ["r", "g"]


def shapes():
    """(shape name, deps [(name, levels)], kind, width, stride, start, window keys the library will ask about)"""
    out = []
    out.append(("within-2x2", [("a", A2), ("b", ["x", "y"])], "within", 1, 1, None))
    out.append(("within-3", [("a", ["r", "g", "b"])], "within", 1, 1, None))
    out.append(("transition-2", [("a", A2)], "transition", 2, 1, None))
    out.append(("window2-stride2", [("a", A2)], "window", 2, 2, None))
    out.append(("window2-start0", [("a", A2)], "window", 2, 1, 0))      # start before the window is complete: None entries
    out.append(("window2-start2", [("a", A2)], "window", 2, 1, 2))
    out.append(("window2x2-start0", [("a", A2), ("b", ["x", "y"])], "window", 2, 1, 0))      # two source factors, early start: None history in both
    out.append(("window1-stride2", [("a", A2)], "window", 1, 2, None))
    # the source is a WEIGHTED factor outside the crossing (rebuilt internally): the early start must survive the rebuilding
    out.append(("window2-start0-weighted-uncrossed", [("a", [["r", 2], ["g", 1]])], "window", 2, 1, 0))
    out.append(("window3-start1-weighted-uncrossed", [("a", [["r", 2], ["g", 1]])], "window", 3, 1, 1))
    return out


def keys_for(deps, width, start):
    """windows the derivation must cover: all level combinations; with an early start also windows whose oldest entries are None"""
    default = width - 1
    per_dep = []
    for _, lv in deps:
        opts = []
        for pos in range(width):
            o = [l[0] if isinstance(l, (list, tuple)) else l for l in lv]      # weighted levels are [name, weight]
            if start is not None and start - width + pos + 1 < 0:
                o = o + [None]
            opts.append(o)
        per_dep.append(list(itertools.product(*opts)))
    return [model.key_of(c) for c in itertools.product(*per_dep)]


def make(shape, table, else_level, idx):
    name, deps, kind, width, stride, start = shape
    facs = [DS.fac(n, lv) for n, lv in deps]
    if name.endswith("-uncrossed"):          # cross another factor instead of the first source
        facs.append(DS.fac("q", ["u", "v"]))
    levels = ["A", "B"]
    dv = dict(kind=kind, deps=[n for n, _ in deps], width=width, stride=stride, start=start, table=table, **{"else": else_level})
    facs.append({"name": "z", "levels": [[l, 1] for l in levels], "derive": dv})
    design = [n for n, _ in deps] + ["z"]
    cons = [["MinimumTrials", 4]] if len(deps) == 1 and len(deps[0][1]) < 4 else []
    if name.endswith("-uncrossed"):
        return DS.D(f"{name}-{idx}", facs, DS.cross(design + ["q"], ["q"], cons), ["c15", name])
    return DS.D(f"{name}-{idx}", facs, DS.cross(design, [deps[0][0]], cons), ["c15", name])


def _eval(arg):
    d, expect = arg
    out = {"name": d["name"], "expect": expect}
    try:
        block, _ = model.build(d)
    except ValueError as e:
        out["build"] = ["ValueError", str(e)[:200]]
        return out
    except Exception as e:
        out["build"] = [type(e).__name__, str(e)[:200]]
        return out
    out["build"] = None
    out["errors"] = sorted(e for e in block.errors if "WARNING" not in e)
    for strat in ("IterateSATGen", "RandomGen"):
        try:
            res = runner.synth(block, 40, strat)
            geo = model.geometry(d)
            bad = []
            for e in res:
                if model.classify(d, {f: list(e[f]) for f in geo["design"]}, geo) == model.INVALID:
                    bad.append(e)
            out[strat] = dict(n=len(res), invalid=bad[:1])
        except Exception as e:
            out[strat] = dict(exception=[type(e).__name__, str(e)[:200]])
    return out


def main(tier):
    ck = Check("C15", tier, "exploration",
               "Exhaustive over predicates as truth tables: for source level sets 2x2, 3 and 2 (transition / windows with stride 2, early and late start), a "
               "derived factor with two levels, every assignment of an accepting-level set ({}, {A}, {B}, {A,B}) to every window the derivation must cover "
               "(ElseLevel variants included) is built through the public API. Two levels accepting one window => the constructor must raise; a window no "
               "level accepts => a non-warning error and no sequences; otherwise every returned sequence carries exactly the accepting level at applicable "
               "trials and '' before the start / at stride-skipped trials (reference reading). Proved link: applies_to_trial (pyvc.wp).")
    run_wp(ck, ["applies_to_trial"], budget_ms(tier), prefix="C15.")
    rng = random.Random(seed())
    cases = []
    for shape in shapes():
        name, deps, kind, width, stride, start = shape
        keys = keys_for(deps, width, start)
        opts = [[], ["A"], ["B"], ["A", "B"]]
        total = 4 ** len(keys)
        if total <= (300 if tier == "quick" else 5000):
            tables = itertools.product(opts, repeat=len(keys))
        else:
            tables = (tuple(rng.choice(opts) for _ in keys) for _ in range((250 if len(keys) <= 16 else 60) if tier == "quick" else 3000))
            # always include the systematic single-defect tables
            base = [["A"] if i % 2 == 0 else ["B"] for i in range(len(keys))]
            extra = [tuple(base)]
            for i in range(len(keys)):
                for o in ([], ["A", "B"]):
                    t = list(base)
                    t[i] = o
                    extra.append(tuple(t))
            tables = itertools.chain(extra, tables)
        for i, tab in enumerate(tables):
            table = dict(zip(keys, [list(x) for x in tab]))
            overlap = any(len(v) > 1 for v in table.values())
            gap = any(len(v) == 0 for v in table.values())
            expect = "overlap" if overlap else ("gap" if gap else "total")
            cases.append((make(shape, table, None, i), expect))
        # ElseLevel variants: B is the else level, table only mentions A
        for i, tab in enumerate(itertools.islice(itertools.product([[], ["A"]], repeat=len(keys)), 64)):
            table = dict(zip(keys, [list(x) for x in tab]))
            cases.append((make(shape, table, "B", f"else{i}"), "total"))
    res = runner.pmap(_eval, cases, jobs=14, timeout=60)
    stats = {"overlap": 0, "gap": 0, "total": 0}
    for (d, expect), (st, r) in zip(cases, res):
        if st != "ok":
            ck.oblig(f"C15.total({d['name']})", "E", "undecided", detail=f"worker {st}")
            continue
        ck.count(d["name"])
        stats[expect] += 1
        bad = None
        if expect == "overlap":
            if not (r["build"] and r["build"][0] == "ValueError"):
                bad = f"two levels accept the same window but the block was built ({r['build']})"
        elif r["build"]:
            bad = f"constructor raised {r['build']} for a derivation without overlapping levels"
        elif expect == "gap":
            if not r["errors"]:
                bad = "some window matches no level but the block reports no error"
            for s in ("IterateSATGen", "RandomGen"):
                v = r.get(s, {})
                if v.get("n"):
                    bad = f"some window matches no level but {s} returned {v['n']} sequences"
        else:
            if r["errors"]:
                bad = f"total, unambiguous derivation but the block reports errors {r['errors'][:1]}"
            for s in ("IterateSATGen", "RandomGen"):
                v = r.get(s, {})
                if "exception" in v:
                    bad = f"{s} raised {v['exception']}"
                elif v.get("invalid"):
                    bad = f"{s} returned a sequence whose derived levels do not follow the derivation: {v['invalid'][0]}"
                elif v.get("n") == 0:
                    bad = f"{s} returned no sequence for a total, unambiguous derivation"
        ck.oblig(f"C15.total({d['name']})", "E", "passed" if not bad else "failed", detail=bad)
        if bad:
            ck.violation(f"C15.{expect}", f"{expect}:{d['name'].rsplit('-', 1)[0]}:{d['name']}", f"derived factor {d['name']} ({expect}): {bad}",
                         SC.design_replay(d, strategy="derived", expect=expect), tags=dict(kind=expect, shape=d["tags"][1]))
    ck.extra["cases_by_expectation"] = stats
    ck.rule = "one case per (shape, truth-table assignment); shapes: within 2x2, within 3, transition, window width 2 stride 2 / start 0 / start 2, two-factor window width 2 start 0, window width 1 stride 2; tables enumerated completely when <= 300 (thorough 5000) else seeded + all single-defect tables"
    ck.exhaustive = False
    ck.sample(dict(shape="within-2x2", table={"r|x": ["A"], "r|y": ["B"], "g|x": [], "g|y": ["A", "B"]}, expect="overlap"))
    ck.trust("spec/model.py reference reading for the 'total' case", "CPython")
    ck.assume("two derived levels per factor; three source levels at most")
    return ck.finish()


if __name__ == "__main__":
    run_check(main)
