"""C12 — adder and population-count circuits compute sums (core/cnf.py)."""
from pyvc.report import Check, run_check
from pyvc.smt import budget_ms
from checks.cnf_common import run_plan, QUAL
from checks.wp_common import run_wp


def main(tier):
    ck = Check("C12", tier, "other",
               "Contracts on the real CNF builder methods, checked by concolic execution of the unmodified code with symbolic "
               "variable ids / fresh counter and an uninterpreted truth assignment. half_adder, full_adder, saturate_adder are "
               "loop-free: all paths explored and covered => proved for every input (tier P). ripple_carry and ripple_saturate are additionally proved for every width "
               "(and every saturation point) by pyvc.wp (loop invariant over partial sums, full_adder / saturate_adder by contract: returned ids, fresh counter, "
               "sum equation, documented saturation of the top bit). ripple_carry, ripple_saturate, "
               "pop_count(+_pop_count_layer) are proved per concrete width (tier S, bounded in width only) against their callees' "
               "contracts; 'no other freedom' is the Lemma-DE side condition (every fresh id defined exactly once as a function of "
               "smaller ids) checked at every level. Counterexamples are replayed on the real code with pycryptosat.")
    ck.under_contract(*[QUAL + n for n in ("get_fresh", "get_n_fresh", "prepend", "zero_out", "half_adder", "full_adder", "saturate_adder",
                                           "ripple_carry", "ripple_saturate", "pop_count", "_pop_count_layer")])
    big = tier == "thorough"
    plan = [("half_adder", ()), ("full_adder", ("nocin",)), ("full_adder", ("cin",)),
            ("saturate_adder", ("nocin",)), ("saturate_adder", ("cin",))]
    maxL = 24 if big else 10
    plan += [("ripple_carry", (L, L)) for L in range(1, maxL + 1)]
    maxS = 10 if big else 7
    plan += [("ripple_saturate", (L, L, s)) for L in range(1, maxS + 1) for s in range(L, maxS + 2)]
    maxN = 40 if big else 16
    sats = range(0, 8) if big else range(0, 6)
    plan += [("pop_count", (n, s)) for n in range(1, maxN + 1) for s in sats]
    ck.rule = ("one case per (builder, shape); shapes: ripple_carry width<=%d, ripple_saturate width<=%d x saturate_at<=%d, "
               "pop_count n<=%d x saturate_at in %s; non-trivial = the real method ran to completion under symbolic ids and all its "
               "obligations were generated" % (maxL, maxS, maxS + 1, maxN, list(sats)))
    ck.exhaustive = False
    run_plan(ck, plan, budget_ms(tier), prop_prefix="C12.")
    # ripple_carry / ripple_saturate for EVERY width: pyvc.wp over the real source with full_adder by contract (loop invariant over the partial sums)
    run_wp(ck, ["ripple_carry", "ripple_saturate"], budget_ms(tier), prefix="C12.wp.")
    ck.trust("z3 4.x / cvc5 as SMT back ends", "CPython semantics of the executed builder code (it is the code that runs)",
             "pycryptosat for native replay")
    ck.assume("math.ceil(math.log(n, 2)) evaluated concretely per shape (n bounded by the shape bound)",
              "set/dict membership on ids decided on concrete shadow values; guarded by a second run with different ids that must yield identical terms",
              "Lemma DE (paper): definitions of fresh variables by smaller ones have exactly one satisfying extension",
              "input literals of pop_count are positive ids (as at every call site); gates and ripple adders accept any non-zero literal")
    return ck.finish()


if __name__ == "__main__":
    run_check(main)
