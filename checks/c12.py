"""C12 — adder and population-count circuits compute sums (core/cnf.py)."""
from pyvc.report import Check, run_check
from pyvc.smt import budget_ms
from checks.cnf_common import run_plan, QUAL
from checks.wp_common import run_wp


def sequence_checks(ck, tier):
    """Two population counts over the SAME inputs in ONE formula (what a design with several counting requests over one variable list produces):
    every ordered pair of saturation points; each result must still be the saturating sum of the inputs and the extension unique.  Native SAT,
    all input assignments (bounded stand-in: the per-shape proofs above build each circuit in a fresh formula)."""
    import itertools
    import time
    from pyvc import native_cnf as N
    from sweetpea._internal.core.cnf import CNF, Var
    from contracts.cnf import _pc_result_len
    t0 = time.time()
    bad = None
    cases = 0
    ns = (3, 5, 6) if tier == "quick" else (2, 3, 4, 5, 6, 7, 8)
    sats = range(0, 6)
    for n in ns:
        ids = list(range(1, n + 1))
        for s1, s2 in itertools.product(sats, repeat=2):
            cnf = CNF.from_fresh(n)
            xs = [Var(i) for i in ids]
            try:
                r1 = [int(v) for v in cnf.pop_count(list(xs), s1)]
                r2 = [int(v) for v in cnf.pop_count(list(xs), s2)]
            except Exception as e:
                bad = bad or ((n, s1, s2), f"raised {e!r}")
                continue
            clauses = [[int(v) for v in cl] for cl in cnf._vals]
            aux = list(range(n + 1, cnf._num_vars + 1))
            cases += 1
            for (res, sat, which) in ((r1, s1, "first"), (r2, s2, "second")):
                if len(res) != _pc_result_len((n, sat)) and bad is None:
                    bad = ((n, s1, s2), f"{which} result has {len(res)} bits, the circuit for saturate_at={sat} has {_pc_result_len((n, sat))}")
            for bits in itertools.product([False, True], repeat=n):
                if bad:
                    break
                ms = N.models_under(clauses, [v if b_ else -v for v, b_ in zip(ids, bits)], aux, limit=2)
                cnt = sum(bits)
                if len(ms) != 1:
                    bad = ((n, s1, s2), f"inputs {bits}: {len(ms)} satisfying extension(s), expected exactly one")
                    break
                m = dict(ms[0])
                m.update(zip(ids, bits))
                for (res, sat, which) in ((r1, s1, "first"), (r2, s2, "second")):
                    val = sum((1 << (len(res) - 1 - i)) for i, v in enumerate(res) if (m[abs(v)] if v > 0 else not m[abs(v)]))
                    exact = sat == 0 or len(res) < sat or n == 1
                    ok = (val == cnt) if exact or cnt < (1 << (sat - 1)) else (val >= (1 << (sat - 1)))
                    if not ok:
                        bad = ((n, s1, s2), f"inputs {bits} (count {cnt}): the {which} count (saturate_at={sat}) reads {val} on bits {res}")
                        break
            ck.count(("pop_count-sequence", n, s1, s2))
    ck.oblig("C12.pop_count.sequence(all pairs)", "E", "passed" if bad is None else "failed", "pycryptosat", time.time() - t0,
             f"{cases} ordered pairs of pop_count calls over one variable list in one formula, n in {list(ns)}, saturate_at in 0..5, all input assignments")
    if bad is not None:
        (n, s1, s2), why = bad
        ck.violation("C12.pop_count.sequence", f"sequence:{n}:{s1}:{s2}", f"pop_count(xs, {s1}) then pop_count(xs, {s2}) on one formula over {n} variables: {why}",
                     dict(function=QUAL + "pop_count", kind="sequence", n=n, saturate_at=[s1, s2], failure=why))


def main(tier):
    ck = Check("C12", tier, "other",
               "Contracts on the real CNF builder methods, checked by concolic execution of the unmodified code with symbolic "
               "variable ids / fresh counter and an uninterpreted truth assignment. half_adder, full_adder, saturate_adder are "
               "loop-free: all paths explored and covered => proved for every input (tier P). ripple_carry and ripple_saturate are additionally proved for every width "
               "(and every saturation point) by pyvc.wp (loop invariant over partial sums, full_adder / saturate_adder by contract: returned ids, fresh counter, "
               "sum equation, documented saturation of the top bit). ripple_carry, ripple_saturate, "
               "pop_count(+_pop_count_layer) are proved per concrete width (tier S, bounded in width only) against their callees' "
               "contracts; 'no other freedom' is the Lemma-DE side condition (every fresh id defined exactly once as a function of "
               "smaller ids) checked at every level. Counterexamples are replayed on the real code with pycryptosat.")
    ck.under_contract(*[QUAL + n for n in ("get_fresh", "get_n_fresh", "prepend", "zero_out", "half_adder", "full_adder", "saturate_adder",
                                           "ripple_carry", "ripple_saturate", "pop_count", "_pop_count_layer")])
    big = tier == "thorough"
    plan = [("half_adder", ()), ("full_adder", ("nocin",)), ("full_adder", ("cin",)),
            ("saturate_adder", ("nocin",)), ("saturate_adder", ("cin",))]
    maxL = 24 if big else 10
    plan += [("ripple_carry", (L, L)) for L in range(1, maxL + 1)]
    maxS = 10 if big else 7
    plan += [("ripple_saturate", (L, L, s)) for L in range(1, maxS + 1) for s in range(L, maxS + 2)]
    maxN = 40 if big else 16
    sats = range(0, 8) if big else range(0, 6)
    plan += [("pop_count", (n, s)) for n in range(1, maxN + 1) for s in sats]
    ck.rule = ("one case per (builder, shape); shapes: ripple_carry width<=%d, ripple_saturate width<=%d x saturate_at<=%d, "
               "pop_count n<=%d x saturate_at in %s; non-trivial = the real method ran to completion under symbolic ids and all its "
               "obligations were generated" % (maxL, maxS, maxS + 1, maxN, list(sats)))
    ck.exhaustive = False
    run_plan(ck, plan, budget_ms(tier), prop_prefix="C12.")
    # ripple_carry / ripple_saturate for EVERY width: pyvc.wp over the real source with full_adder by contract (loop invariant over the partial sums)
    run_wp(ck, ["ripple_carry", "ripple_saturate"], budget_ms(tier), prefix="C12.wp.")
    sequence_checks(ck, tier)
    ck.trust("z3 4.x / cvc5 as SMT back ends", "CPython semantics of the executed builder code (it is the code that runs)",
             "pycryptosat for native replay")
    ck.assume("math.ceil(math.log(n, 2)) evaluated concretely per shape (n bounded by the shape bound)",
              "set/dict membership on ids decided on concrete shadow values; guarded by a second run with different ids that must yield identical terms",
              "Lemma DE (paper): definitions of fresh variables by smaller ones have exactly one satisfying extension",
              "input literals of pop_count are positive ids (as at every call site); gates and ripple adders accept any non-zero literal")
    return ck.finish()


if __name__ == "__main__":
    run_check(main)
