"""Whole-system properties decided over the bounded design space D (tier E, with the inner "all models" quantifier
decided by SAT where the artefact is a formula: tier S).  One judge function per property; shared evaluation."""
from __future__ import annotations

import math

from pyvc.report import Check, seed
from pyvc.smt import budget_ms
from spec import model
from checks import sys_common as SC
from checks.wp_common import run_wp

TRUST = ["pycryptosat (models returned are re-checked against the reference reading; 'unsat' is trusted)",
         "CPython / sweetpea's own dependencies", "spec/model.py: the reference reading of docs/_source/api/*.rst (three-valued; see spec/ORACLE_DECISIONS.md)"]


def _fails(r, strat):
    v = r.get(strat)
    return isinstance(v, dict) and "exception" in v


def _cls(d, extra=""):
    fc = SC.feature_class(d)
    return ("+".join(fc) if fc else "plain") + (":" + extra if extra else "")


def _replay(d, **kw):
    return SC.design_replay(d, **kw)


def _count_design(ck, r, interesting=True):
    ck.count(r["name"], nontrivial=interesting and "build_error" not in r and "timeout" not in r and "worker_error" not in r)


def _skip(ck, r, oid):
    """timeouts / worker crashes of the harness are undecided, never violations"""
    if "timeout" in r:
        ck.oblig(f"{oid}({r['name']})", "E", "undecided", detail=f"worker timed out after {r['timeout']}s")
        return True
    if "worker_error" in r:
        ck.oblig(f"{oid}({r['name']})", "E", "undecided", detail=f"worker error {r['worker_error'][:2]}")
        return True
    if "skipped" in r:
        ck.extra["designs_outside_bound"] = ck.extra.get("designs_outside_bound", 0) + 1
        return True
    return False


def _weighted_split(d):
    """weighted non-derived factors of the design -> (in no crossing, in some but not every crossing)"""
    fm = model.factor_map(d)
    g = model.geometry(d)
    cs = [set(c["factors"]) for c in g["crossings"]]
    free, partly = [], []
    for F in d["factors"]:
        if model.is_derived(F) or not any(w > 1 for _, w in F["levels"]):
            continue
        n_in = sum(F["name"] in c for c in cs)
        if n_in == 0:
            free.append(F["name"])
        elif n_in < len(cs):
            partly.append(F["name"])
    return fm, free, partly


_PTWIN = {}


def _partial_twin(d, partly):
    k = (d["name"], tuple(partly))
    if k not in _PTWIN:
        if len(_PTWIN) > 64:
            _PTWIN.clear()
        t, back = expand_weights(d, only=set(partly))
        _PTWIN[k] = (t, back, model.geometry(t))
    return _PTWIN[k]


def expected_multiplicity(d, key, max_assignments=4096):
    """How often may one printed sequence be returned as distinct solutions?  -> (m_code, m_doc)

    * A weighted level of a non-derived factor that is in NO crossing: every choice of copy is a distinct solution (Level
      documentation, what the library does): the product of the weights over the trials, in both components.
    * A weighted non-derived factor that is in every crossing: one solution, in both components.
    * A weighted non-derived factor in some but not every crossing (Merge / MultiCrossBlock / Nest): the first paragraph of the
      Level documentation ("as long as the level's factor is part of a block's crossing ... not considered distinct") gives
      m_code, its second paragraph ("more generally, is not in all crossings ... copies are treated as distinct") gives m_doc =
      the number of valid sequences of the twin design with separately named copies that print as `key` (counted by the
      reference reading on the twin; None if that cannot be decided).  C02/C05/C06/C09 say nothing about which it is, so a
      design is accepted under either reading applied to all its sequences; the discrepancy itself is C23's subject."""
    fm, free, partly = _weighted_split(d)
    base = 1
    for f, vals in key:
        if f in free:
            w = dict(map(tuple, fm[f]["levels"]))
            for v in vals:
                base *= w.get(v, 1)
    if not partly:
        return base, base
    import itertools
    twin, back, geo = _partial_twin(d, partly)
    fwd = {}
    for (f, copy), l in back.items():
        fwd.setdefault((f, l), []).append(copy)
    seq = {f: list(vals) for f, vals in key}
    slots = [(f, t, fwd[(f, v)]) for f in partly for t, v in enumerate(seq[f]) if (f, v) in fwd]
    n_asg = 1
    for _, _, ch in slots:
        n_asg *= len(ch)
    if n_asg > max_assignments:
        return base, None
    cnt = 0
    for choice in itertools.product(*[ch for _, _, ch in slots]):
        s2 = {f: list(v) for f, v in seq.items()}
        for (f, t, _), c in zip(slots, choice):
            s2[f][t] = c
        try:
            verdict = model.classify(twin, s2, geo)
        except model.Unsupported:
            return base, None
        if verdict == model.AMBIG:
            return base, None
        cnt += verdict == model.VALID
    return base, base * cnt


def multiplicity_mismatch(d, counts, valid):
    """first (key, returned, expected) among the definitely valid printed sequences whose number of occurrences fits neither
    reading of expected_multiplicity applied uniformly to the design; None if one reading fits (or cannot be decided)"""
    bad = [None, None]
    undecidable = False
    for k, n in counts.items():
        if k not in valid:
            continue
        try:
            want = expected_multiplicity(d, k)
        except model.Unsupported:
            return None
        for i in (0, 1):
            if want[i] is None:
                undecidable = True
            elif bad[i] is None and n != want[i]:
                bad[i] = (dict(k), n, want[i] if want[0] == want[1] else f"{want[0]} (copies of a partly crossed factor not distinct) or {want[1]} (distinct)")
    if bad[0] is None or bad[1] is None or undecidable:
        return None
    return bad[0]


# =========================================================================================== C01
LATIN_SHAPES = [(2, 2), (3, 3), (3, 2), (2, 3), (2, 2, 2), (3, 2, 3), (2, 3, 3), (3, 3, 2), (4, 2, 3)]


def _latin_eval(arg):
    """LatinSquare over several factors, not crossed explicitly, with prod(level counts) trials: the two checkable statements of
    constraints.rst — every N trials (N = largest level count) include every level of every factor, and the constraint "effectively
    forces a crossing" once there are enough trials (every combination of levels occurs exactly once in prod(sizes) trials)."""
    sizes, strat, n = arg
    import math
    import sweetpea as sp
    fs = [sp.Factor(f"f{i}", [f"l{i}{j}" for j in range(s_)]) for i, s_ in enumerate(sizes)]
    M, N = math.prod(sizes), max(sizes)
    out = {"sizes": list(sizes)}
    try:
        block = sp.CrossBlock(fs, [], [sp.LatinSquare(fs), sp.MinimumTrials(M)])
        res = SC.runner.synth(block, n, strat)
    except Exception as e:
        out["exception"] = [type(e).__name__, str(e)[:200]]
        return out
    bad = []
    for e in res:
        T = len(e["f0"])
        combos = [tuple(e[f.name][t] for f in fs) for t in range(T)]
        why = None
        if T != M:
            why = f"{T} trials, expected {M}"
        elif len(set(combos[:M])) != M:
            why = f"only {len(set(combos[:M]))} of the {M} level combinations occur in {M} trials"
        else:
            for f in fs:
                for s0 in range(0, T - N + 1, N):
                    if set(e[f.name][s0:s0 + N]) != {l.name for l in f.levels}:
                        why = f"trials {s0}..{s0 + N - 1} do not include every level of {f.name}"
        if why:
            bad.append([why, {k: list(v) for k, v in e.items()}])
    out.update(n=len(res), bad=bad[:2], n_bad=len(bad))
    return out


def c01(tier):
    ck = Check("C01", tier, "other",
               "Contract on synthesize_trials for formula-based strategies: every returned sequence satisfies the reference reading "
               "of the documentation. Decided per design of the bounded space D: (S) every model of the real compiled formula "
               "(build_backend_request + combine_cnf_with_requests), enumerated with an independent blocking loop and projected on "
               "the trial variables, decodes to a sequence that is not INVALID — all models, so no solver luck; (E) the sequences "
               "actually returned by IterateSATGen (thorough: CMSGen, UniGen, IterateGen) are checked the same way. Deductive links "
               "proved for all inputs by pyvc.wp: repetition windows (map_block_trial_ranges), applicability (applies_to_trial); "
               "cardinality/adder encodings are C10/C12.")
    run_wp(ck, ["map_block_trial_ranges", "get_trial_numbers.window", "applies_to_trial", "add_weight_constraint"], budget_ms(tier), prefix="C01.link.")
    ds = SC.design_space(tier, seed())
    strats = ["IterateSATGen"] + (["CMSGen", "UniGen", "IterateGen"] if tier == "thorough" else [])
    res = SC.run(ds, ["cnf"] + strats, dict(n=400 if tier == "quick" else 2000, model_limit=1500 if tier == "quick" else 6000))
    byname = {d["name"]: d for d in ds}
    for r in res:
        d = byname[r["name"]]
        if _skip(ck, r, "C01.cnf.sound"):
            continue
        if "build_error" in r or "oracle_unsupported" in r:
            ck.count(r["name"], nontrivial=False)
            continue
        _count_design(ck, r)
        cnf = r.get("cnf", {})
        if "exception" in cnf:
            ck.oblig(f"C01.cnf.sound({r['name']})", "S", "undecided", detail=f"compilation raised {cnf['exception'][:2]} (C08's concern)")
        else:
            ok = cnf.get("n_invalid", 0) == 0
            ck.oblig(f"C01.cnf.sound({r['name']})", "S", "proved" if ok else "refuted", "pycryptosat", 0.0,
                     None if ok else f"{cnf['n_invalid']} of {cnf['n_models']} models decode to invalid sequences")
            if not ok:
                ck.violation("C01.cnf.sound", f"{_cls(d, 'invalid-model')}:{r['name']}",
                             f"design {r['name']}: a model of the compiled formula decodes to a sequence that violates the documented design: {cnf['invalid'][0]}",
                             _replay(d, strategy="cnf", invalid=cnf["invalid"]))
            if cnf.get("truncated"):
                ck.extra.setdefault("truncated_model_enumerations", []).append(r["name"])
        for s in strats:
            v = r.get(s)
            if not isinstance(v, dict) or "exception" in v:
                continue
            ok = v.get("n_invalid", 0) == 0 and (not v["lens"] or v["lens"] == [r["T_oracle"]])
            ck.oblig(f"C01.e2e({r['name']},{s})", "E", "passed" if ok else "failed", detail=None if ok else f"invalid={v.get('n_invalid')} lens={v['lens']} T={r['T_oracle']}")
            if not ok:
                ck.violation("C01.e2e", f"{_cls(d, 'invalid-output')}:{r['name']}:{s}",
                             f"design {r['name']}: {s} returned a sequence that violates the documented design: {(v.get('invalid') or [v['lens']])[0]}",
                             _replay(d, strategy=s, invalid=v.get("invalid")))
        ck.sample(dict(design=r["name"], T=r.get("T_lib"), models=cnf.get("n_models"), returned=r.get("IterateSATGen", {}).get("n")))
    # LatinSquare over two and three factors of unequal sizes (sequence spaces far beyond the enumeration bound of D: sampled, each sequence checked)
    largs = [(sz, st_, 12 if tier == "quick" else 60) for sz in LATIN_SHAPES for st_ in strats[:1] + (["CMSGen"] if tier == "thorough" else [])]
    for (sz, st_, n_), (pst, r) in zip(largs, SC.runner.pmap(_latin_eval, largs, jobs=9, timeout=120)):
        oid = f"C01.latin.doc({'x'.join(map(str, sz))},{st_})"
        if pst != "ok" or "exception" in r:
            ck.oblig(oid, "E", "undecided", detail=str(r)[:200])
            continue
        ck.count(("latin", sz, st_))
        ok = r["n_bad"] == 0 and r["n"] > 0
        ck.oblig(oid, "E", "passed" if ok else "failed", detail=None if ok else (r["bad"][0][0] if r["bad"] else "no sequence returned"))
        if not ok:
            ck.violation("C01.latin.doc", f"latin:{'x'.join(map(str, sz))}:{st_}",
                         f"LatinSquare over factors with {list(sz)} levels (uncrossed, MinimumTrials = product): {st_} returned a sequence that contradicts the documentation: "
                         f"{r['bad'][0][0] if r['bad'] else 'no sequence'}",
                         dict(replay_kind="latin", sizes=list(sz), strategy=st_, example=r["bad"][0][1] if r["bad"] else None))
    ck.rule = ("one case per design of D (curated core + VERIF_SEED random draws); non-trivial = constructs, is covered by the reference "
               "reading, compiles; per design all models of the formula are enumerated (up to the stated limit)")
    ck.exhaustive = False
    ck.trust(*TRUST)
    ck.assume("bounded design space D (spec/designs.py); no extrapolation to other designs",
              "solver models: pycryptosat trusted to be sound; every model is re-checked, so only completeness of enumeration relies on 'unsat'")
    return ck.finish()


# =========================================================================================== C02
def c02(tier):
    ck = Check("C02", tier, "other",
               "Exhausting IterateSATGen returns exactly the valid sequences: per design of D the set returned by synthesize_trials "
               "with N above the solution count is compared with the independently enumerated valid set of the reference reading "
               "(lower bound: definitely valid, upper bound: not definitely invalid) and each sequence must occur once (times the "
               "documented copy multiplicity of weighted uncrossed levels); the same for the projected model set of the compiled formula "
               "(tier S). Links proved by pyvc.wp/concolic: blocking-clause exactness is C27, cardinality encodings C10.")
    ds = SC.design_space(tier, seed())
    res = SC.run(ds, ["sets", "cnf", "IterateSATGen"], dict(n=4000 if tier == "quick" else 20000, model_limit=4000 if tier == "quick" else 20000,
                              space_limit=60_000 if tier == "quick" else 400_000), timeout=45 if tier == "quick" else 300)
    byname = {d["name"]: d for d in ds}
    for r in res:
        d = byname[r["name"]]
        if _skip(ck, r, "C02.exhaust"):
            continue
        if "build_error" in r or "oracle_unsupported" in r or "lo" not in r:
            ck.count(r["name"], nontrivial=False)
            continue
        _count_design(ck, r)
        lo, up = set(map(_t, r["lo"])), set(map(_t, r["lo"])) | set(map(_t, r["amb"]))
        for src in ("cnf", "IterateSATGen"):
            v = r.get(src, {})
            if "exception" in v:
                ck.oblig(f"C02.{src}.exact({r['name']})", "E", "undecided", detail=f"raised {v['exception'][:2]} (C08)")
                continue
            keys = [_t(k) for k in v.get("keys", [])]
            if src == "cnf" and v.get("truncated") or src != "cnf" and v.get("n", 0) >= 4000 and tier == "quick":
                ck.oblig(f"C02.{src}.exact({r['name']})", "E", "undecided", detail="enumeration truncated at the limit")
                continue
            ks = set(keys)
            missing, extra = lo - ks, ks - up
            from collections import Counter
            dup = multiplicity_mismatch(d, Counter(keys), lo)
            ok = not missing and not extra and dup is None
            tier_ = "S" if src == "cnf" else "E"
            ck.oblig(f"C02.{src}.exact({r['name']})", tier_, ("proved" if tier_ == "S" else "passed") if ok else ("refuted" if tier_ == "S" else "failed"),
                     detail=None if ok else f"missing={len(missing)} extra={len(extra)} multiplicity={dup}")
            if not ok:
                what = []
                if missing:
                    what.append(f"{len(missing)} valid sequence(s) never returned, e.g. {dict(next(iter(missing)))}")
                if extra:
                    what.append(f"{len(extra)} invalid sequence(s) returned, e.g. {dict(next(iter(extra)))}")
                if dup:
                    what.append(f"sequence returned {dup[1]}x, expected {dup[2]}x: {dict(dup[0])}")
                ck.violation(f"C02.{src}.exact", f"{_cls(d, 'set-mismatch')}:{r['name']}:{src}",
                             f"design {r['name']}: exhausted {'compiled formula' if src == 'cnf' else 'IterateSATGen'} differs from the valid set: " + "; ".join(what),
                             _replay(d, strategy=src, valid=len(lo), ambiguous=len(up) - len(lo), returned=len(keys)))
        ck.sample(dict(design=r["name"], valid=len(lo), ambiguous=len(up) - len(lo), returned=r.get("IterateSATGen", {}).get("n")))
    ck.rule = "one case per design of D whose full sequence space could be enumerated (<= 150000 candidates); non-trivial = constructs and is covered by the reference reading"
    ck.trust(*TRUST)
    ck.assume("bounded design space D", "valid set computed by brute force over all level sequences of the basic factors")
    return ck.finish()


def _t(k):
    return tuple((f, tuple(v)) for f, v in k)


# =========================================================================================== C03
def c03(tier):
    ck = Check("C03", tier, "other",
               "Each trial sequence is exactly one model: per design of D every model of the real compiled formula, projected on the "
               "trial variables, is asked for a second extension to the auxiliary variables (must be unsat: decided by SAT for every "
               "projected model, tier S). The deductive reason is Lemma DE over the builder contracts: Tseitin definitions (C11), "
               "adder/pop-count definitions and unit-fixed padding (C12, C10: obligation kind .defs proves every fresh variable is "
               "defined exactly once).")
    ds = SC.design_space(tier, seed())
    res = SC.run(ds, ["cnf"], dict(model_limit=800 if tier == "quick" else 5000))
    byname = {d["name"]: d for d in ds}
    for r in res:
        d = byname[r["name"]]
        if _skip(ck, r, "C03.unique"):
            continue
        cnf = r.get("cnf")
        if "build_error" in r or not cnf or "exception" in cnf or cnf.get("errors"):
            ck.count(r["name"], nontrivial=False)
            continue
        ck.count(r["name"], nontrivial=cnf["n_models"] > 0)
        ok = cnf["n_non_unique"] == 0
        ck.oblig(f"C03.unique({r['name']})", "S", "proved" if ok else "refuted", "pycryptosat",
                 detail=None if ok else f"{cnf['n_non_unique']} of {cnf['n_models']} projected models have more than one extension")
        if not ok:
            ck.violation("C03.unique", f"{_cls(d, 'non-unique')}:{r['name']}",
                         f"design {r['name']}: a trial sequence corresponds to more than one model of the compiled formula (auxiliary variables not determined)",
                         _replay(d, strategy="cnf", projection=cnf["non_unique"][:1]))
        if cnf.get("unused_aux"):
            ck.extra.setdefault("aux_ids_in_no_clause", {})[r["name"]] = cnf["unused_aux"]
        ck.sample(dict(design=r["name"], projected_models=cnf["n_models"], clauses=cnf.get("n_clauses"), vars=cnf.get("n_vars"), support=cnf.get("support")))
    ck.rule = "one case per design of D that compiles; per design every projected model (up to the limit) gets one uniqueness query; non-trivial = at least one model"
    ck.trust(*TRUST)
    ck.assume("auxiliary ids that occur in no clause are reported in coverage.aux_ids_in_no_clause, not counted as a second model "
              "(samplers are given the sampling set, so they do not double solutions)")
    return ck.finish()


# =========================================================================================== C07
def c07(tier):
    ck = Check("C07", tier, "exploration",
               "Relational contract, no oracle: for every design of D accepted by both, the exhausted IterateSATGen set equals the exhausted "
               "RandomGen set, compared by level names.")
    ds = SC.design_space(tier, seed())
    res = SC.run(ds, ["IterateSATGen", "RandomGen"], dict(n=3000 if tier == "quick" else 15000, space_limit=60_000 if tier == "quick" else 400_000), timeout=45 if tier == "quick" else 240)
    byname = {d["name"]: d for d in ds}
    lim = 3000 if tier == "quick" else 15000
    for r in res:
        d = byname[r["name"]]
        if _skip(ck, r, "C07.agree"):
            continue
        a, b = r.get("IterateSATGen"), r.get("RandomGen")
        if "build_error" in r or not isinstance(a, dict) or not isinstance(b, dict) or "exception" in a or "exception" in b:
            ck.count(r["name"], nontrivial=False)
            continue
        if a["n"] >= lim or b["n"] >= lim:
            ck.oblig(f"C07.agree({r['name']})", "E", "undecided", detail="not exhausted within the sample limit")
            continue
        ck.count(r["name"])
        sa, sb = set(map(_t, a["keys"])), set(map(_t, b["keys"]))
        ok = sa == sb
        ck.oblig(f"C07.agree({r['name']})", "E", "passed" if ok else "failed", detail=None if ok else f"only SAT: {len(sa - sb)}, only Random: {len(sb - sa)}")
        if not ok:
            ex = dict(next(iter(sa - sb))) if sa - sb else dict(next(iter(sb - sa)))
            ck.violation("C07.agree", f"{_cls(d, 'disagree')}:{r['name']}",
                         f"design {r['name']}: IterateSATGen and RandomGen disagree ({len(sa - sb)} only SAT, {len(sb - sa)} only Random), e.g. {ex}",
                         _replay(d, strategy="both", only_sat=len(sa - sb), only_random=len(sb - sa), example=ex))
        ck.sample(dict(design=r["name"], sat=len(sa), random=len(sb)))
    ck.rule = "one case per design of D on which both strategies returned without raising and were exhausted; distinct designs"
    ck.trust(*TRUST[:2])
    ck.assume("bounded design space D")
    return ck.finish()


# =========================================================================================== C08
DOCUMENTED_REFUSALS = ("SMGen",)


def c08(tier):
    ck = Check("C08", tier, "other",
               "Contract raises=∅ on synthesize_trials for every design the constructors accept: (P) safety obligations generated by pyvc.wp "
               "(subscript/division safety of map_block_trial_ranges, applies_to_trial and the combinatorics unranking functions) and "
               "(E) every design of D is run with IterateSATGen and RandomGen (thorough: CMSGen, UniGen); any exception other than a "
               "documented refusal is a violation, the traceback is in the replay file.")
    run_wp(ck, ["map_block_trial_ranges", "applies_to_trial", "extract_components", "compute_jth_combination", "compute_jth_inversion_sequence"],
           budget_ms(tier), prefix="C08.safety.")
    ds = SC.design_space(tier, seed(), random_n=80 if tier == "quick" else 600, continuous=True)
    strats = ["IterateSATGen", "RandomGen"] + (["CMSGen", "UniGen"] if tier == "thorough" else [])
    res = SC.run(ds, strats, dict(n=3, space_limit=10**7), timeout=45)
    byname = {d["name"]: d for d in ds}
    for r in res:
        d = byname[r["name"]]
        if _skip(ck, r, "C08.total"):
            continue
        if "build_error" in r:
            ck.count(r["name"], nontrivial=False)     # the constructor refused the design: outside the property
            continue
        ck.count(r["name"])
        for s in strats:
            v = r.get(s)
            if not isinstance(v, dict):
                continue
            ok = "exception" not in v
            ck.oblig(f"C08.total({r['name']},{s})", "E", "passed" if ok else "failed", detail=None if ok else str(v["exception"][:2]))
            if not ok:
                ck.violation("C08.total", f"{_cls(d, v['exception'][0])}:{r['name']}:{s}",
                             f"design {r['name']}: synthesize_trials with {s} raised {v['exception'][0]}: {v['exception'][1]}",
                             _replay(d, strategy=s, exception=v["exception"]),
                             tags=dict(kind=v["exception"][0], strategy=s, features=SC.feature_class(d)))
        if "T_error" in r:
            ck.violation("C08.total", f"{_cls(d, r['T_error'][0])}:{r['name']}:trials_per_sample", f"design {r['name']}: trials_per_sample raised {r['T_error'][:2]}",
                         _replay(d, strategy="trials_per_sample", exception=r["T_error"]))
        ck.sample(dict(design=r["name"], strategies=strats))
    # the call must RETURN: a sampler back end that ends the interpreter on an unsatisfiable formula (pyunigen does) is not "a possibly empty list"
    import subprocess
    import sys as _sys
    prog = ("import warnings, sys, io; warnings.filterwarnings('ignore'); import sweetpea as sp\n"
            "c = sp.Factor('c', ['r', 'g'])\n"
            "b = sp.CrossBlock([c], [c], [sp.ExactlyK(2, (c, 'r'))])\n"
            "so = sys.stdout; sys.stdout = io.StringIO()\n"
            "try:\n    r = sp.synthesize_trials(b, 3, getattr(sp, sys.argv[1]))\nfinally:\n    sys.stdout = so\n"
            "print('RETURNED', len(r))\n")
    for s in ("UniGen", "CMSGen", "IterateSATGen", "RandomGen"):
        try:
            pr = subprocess.run([_sys.executable, "-c", prog, s], capture_output=True, text=True, timeout=180, cwd="/")
            out = pr.stdout + pr.stderr
            ok = "RETURNED 0" in out
            how = f"exit status {pr.returncode}, output tail {out[-200:]!r}"
        except subprocess.TimeoutExpired:
            ck.oblig(f"C08.returns(unsatisfiable,{s})", "E", "undecided", detail="subprocess timed out")
            continue
        ck.count(("returns", s))
        ck.oblig(f"C08.returns(unsatisfiable,{s})", "E", "passed" if ok else "failed", detail=None if ok else how)
        if not ok:
            ck.violation("C08.returns", f"unsatisfiable-design:{s}", f"synthesize_trials(CrossBlock([c],[c],[ExactlyK(2,(c,'r'))]), 3, {s}) did not return an empty list: {how}",
                         dict(replay_kind="script", script=prog, argv=[s]), tags=dict(kind="no-return", strategy=s))
    ck.rule = "one case per design of D that the constructors accept (designs they reject are outside the property), each run with every listed strategy"
    ck.trust(*TRUST[:2])
    ck.assume("bounded design space D", "a worker that exceeds the wall-clock limit is reported undecided, not as an exception")
    return ck.finish()


# =========================================================================================== replay
def replay(payload):
    """re-run the judged facts for one design; True iff the recorded failure still shows"""
    d = payload["design"]
    s = payload.get("strategy")
    want = {"cnf": ["sets", "cnf"], "both": ["IterateSATGen", "RandomGen"], None: ["IterateSATGen"]}.get(s, ["sets", s])
    r = SC.run([d], want, dict(n=5000, model_limit=5000), jobs=1, timeout=300)[0]
    print({k: (v if not isinstance(v, (list, dict)) or len(str(v)) < 300 else str(v)[:300] + "...") for k, v in r.items() if k not in ("lo", "amb")})
    if s == "both":
        a, b = r.get("IterateSATGen", {}), r.get("RandomGen", {})
        return "exception" in a or "exception" in b or set(map(_t, a.get("keys", []))) != set(map(_t, b.get("keys", [])))
    v = r.get(s if s != "cnf" else "cnf", {})
    if "exception" in v:
        return True
    if v.get("n_invalid"):
        return True
    if "lo" in r:
        lo, up = set(map(_t, r["lo"])), set(map(_t, r["lo"])) | set(map(_t, r["amb"]))
        ks = set(map(_t, v.get("keys", [])))
        if lo - ks or ks - up:
            return True
        from collections import Counter
        if s != "cnf" or True:
            if multiplicity_mismatch(d, Counter(map(_t, v.get("keys", []))), lo):
                return True
    if v.get("n_non_unique"):
        return True
    return False


def replay_pair(payload):
    """C23/C24 pair files: run both sides again (IterateSATGen and RandomGen); True iff the printed (multi)sets still differ"""
    from collections import Counter
    back = {(f, c): l for f, c, l in payload.get("rename_back", [])}
    r = _twin_eval((payload["left"], payload["right"], back))
    still = False
    for strat in ("IterateSATGen", "RandomGen"):
        a, b = r.get(f"weighted:{strat}", {}), r.get(f"twin:{strat}", {})
        print(strat, {k: v for k, v in a.items() if k != "keys"}, {k: v for k, v in b.items() if k != "keys"})
        if "exception" in a or "exception" in b:
            still = still or ("exception" in a) != ("exception" in b)
            continue
        ka, kb = Counter(map(_t, a["keys"])), Counter(map(_t, b["keys"]))
        still = still or (ka != kb if payload.get("multiset") else set(ka) != set(kb))
    return still


# =========================================================================================== C16
def c16(tier):
    ck = Check("C16", tier, "other",
               "block.trials_per_sample() equals the trial count computed by an independent reading of the documented arithmetic (spec.model.geometry) "
               "for every design of D, and every sequence returned by every strategy has exactly that many entries for every user factor. "
               "Proved links (pyvc.wp): __trials_required_for_crossing returns the smallest trial count with `crossing_size` applicable trials "
               "(partial correctness), applies_to_trial is the documented start/stride progression.")
    run_wp(ck, ["trials_required_for_crossing", "applies_to_trial"], budget_ms(tier), prefix="C16.link.")
    ds = SC.design_space(tier, seed())
    strats = ["IterateSATGen", "RandomGen", "SMGen"] + (["CMSGen", "UniGen", "IterateGen"] if tier == "thorough" else [])
    res = SC.run(ds, strats, dict(n=6, space_limit=10**7), timeout=60)
    byname = {d["name"]: d for d in ds}
    for r in res:
        d = byname[r["name"]]
        if _skip(ck, r, "C16.count"):
            continue
        if "build_error" in r:
            ck.count(r["name"], nontrivial=False)
            continue
        if "T_oracle" in r and "T_lib" in r:
            ck.count(r["name"])
            ok = r["T_lib"] == r["T_oracle"]
            ck.oblig(f"C16.count({r['name']})", "E", "passed" if ok else "failed", detail=None if ok else f"library {r['T_lib']} documented {r['T_oracle']}")
            if not ok:
                ck.violation("C16.count", f"{_cls(d, 'count')}:{r['name']}", f"design {r['name']}: trials_per_sample() = {r['T_lib']}, the documented rules give {r['T_oracle']}",
                             _replay(d, strategy="trials_per_sample"), tags=dict(kind="count", features=SC.feature_class(d)))
        T = r.get("T_lib")
        for s in strats:
            v = r.get(s)
            if not isinstance(v, dict) or "exception" in v or not v.get("n"):
                continue
            ok = v["lens"] == [T] and all(set(ks) == set(r["user_factors"]) for ks in v["keysets"])
            ck.oblig(f"C16.length({r['name']},{s})", "E", "passed" if ok else "failed", detail=None if ok else f"lengths {v['lens']} keys {v['keysets'][:1]} expected {T} / {r['user_factors']}")
            if not ok:
                ck.violation("C16.length", f"{_cls(d, 'length')}:{r['name']}:{s}",
                             f"design {r['name']}: {s} returned sequences with {v['lens']} entries / factors {v['keysets'][:1]}; the block has {T} trials and factors {r['user_factors']}",
                             _replay(d, strategy=s), tags=dict(kind="length", strategy=s, features=SC.feature_class(d), block=d["block"]["kind"]))
        ck.sample(dict(design=r["name"], T=T, T_documented=r.get("T_oracle")))
    ck.rule = "one case per design of D; trial count compared where the reference reading covers the design, sequence lengths for every strategy that returned something"
    ck.trust(*TRUST)
    ck.assume("bounded design space D")
    return ck.finish()


# =========================================================================================== C04 / C17
def _mismatch_run(tier, ds, timeout=60):
    return SC.run(ds, ["mismatch", "RandomGen"], dict(n=300 if tier == "quick" else 3000, space_limit=30_000 if tier == "quick" else 150_000,
                                                       mismatch_limit=30_000 if tier == "quick" else 150_000), timeout=timeout if tier == "quick" else 300)


def c04(tier):
    ck = Check("C04", tier, "exploration",
               "RandomGen soundness over D: (E) every sequence RandomGen returns is not invalid under the reference reading; and, because rejection "
               "sampling hides a lenient checker only when the sampler is lucky, (E-exhaustive per design) every candidate sequence of the design "
               "that the library's own checks accept (constraints' potential_sample_conforms, derived-level recheck, crossing counts — the tests "
               "RandomGen rejects by) is not invalid. Links proved elsewhere: unranking bijections (C13), windows (C26).")
    ds = SC.design_space(tier, seed())
    res = _mismatch_run(tier, ds)
    byname = {d["name"]: d for d in ds}
    for r in res:
        d = byname[r["name"]]
        if _skip(ck, r, "C04.e2e"):
            continue
        if "build_error" in r or "oracle_unsupported" in r or r.get("oracle_errors"):
            ck.count(r["name"], nontrivial=False)
            continue
        ck.count(r["name"])
        v = r.get("RandomGen")
        if isinstance(v, dict) and "exception" not in v:
            ok = v.get("n_invalid", 0) == 0
            ck.oblig(f"C04.e2e({r['name']})", "E", "passed" if ok else "failed")
            if not ok:
                ck.violation("C04.e2e", f"{_cls(d, 'invalid-output')}:{r['name']}", f"design {r['name']}: RandomGen returned an invalid sequence {v['invalid'][0]}",
                             _replay(d, strategy="RandomGen", invalid=v["invalid"]), tags=dict(kind="invalid-output", features=SC.feature_class(d)))
        mm = r.get("mismatch", {})
        if "n_seq" in mm:
            ok = not mm.get("n_false_accept")
            ck.oblig(f"C04.conforms.sound({r['name']})", "E", "passed" if ok else "failed", detail=f"{mm['n_seq']} candidate sequences" + ("" if mm.get("exhaustive") else " (truncated)"))
            if not ok:
                ck.violation("C04.conforms.sound", f"{_cls(d, 'lenient-check')}:{r['name']}",
                             f"design {r['name']}: the library's acceptance tests pass an invalid sequence {mm['false_accept'][0]}",
                             _replay(d, strategy="mismatch", example=mm["false_accept"][0]), tags=dict(kind="lenient-check", features=SC.feature_class(d)))
            ck.sample(dict(design=r["name"], candidates=mm["n_seq"], valid=mm["n_valid"]))
    ck.rule = "one case per design of D covered by the reference reading; per design all candidate sequences up to the stated limit"
    ck.trust(*TRUST[1:])
    ck.assume("bounded design space D", "all random draws: covered only through the exhaustive acceptance-test obligation, not by sampling")
    return ck.finish()


def c17(tier):
    ck = Check("C17", tier, "other",
               "Deductive part (pyvc.wp on the real source, all inputs): combinations_mismatched_weights returns a non-negative number that is 0 iff every "
               "combination occurring in the window [start, end) occurs exactly (or_less: at most) combination_weight * weight times there — the fact "
               "sample_mismatch_crossing relies on when it compares the result with the acceptable error (the trial key is an uninterpreted function of the "
               "trial, dict iteration is some repetition-free enumeration of the keys). Bounded part: "
               "sample_mismatch_experiment(block, s) == {} iff s is valid: for every design of D covered by the reference reading, every candidate "
               "sequence of the design (whole space when it has at most the stated number of sequences) is given to the real checker; definitely "
               "valid sequences must be accepted, definitely invalid ones rejected, ambiguous ones are not judged.")
    run_wp(ck, ["combinations_mismatched_weights"], budget_ms(tier), prefix="C17.wp.")
    ck.under_contract("sweetpea._internal.check_mismatch:combinations_mismatched_weights", "sweetpea._internal.main:sample_mismatch_experiment")
    ds = SC.design_space(tier, seed())
    res = _mismatch_run(tier, ds)
    byname = {d["name"]: d for d in ds}
    for r in res:
        d = byname[r["name"]]
        if _skip(ck, r, "C17.iff"):
            continue
        mm = r.get("mismatch", {})
        if r.get("oracle_errors"):
            ck.count(r["name"], nontrivial=False)      # the design has no valid sequence by construction (C02): "valid" is degenerate, not judged here
            continue
        if "build_error" in r or "oracle_unsupported" in r or "n_seq" not in mm:
            ck.count(r["name"], nontrivial=False)
            if "exception" in mm:
                ck.oblig(f"C17.iff({r['name']})", "E", "undecided", detail=str(mm["exception"][:2]))
            continue
        ck.count(r["name"])
        ok = not mm.get("n_false_accept") and not mm.get("n_false_reject")
        ck.oblig(f"C17.iff({r['name']})", "E", "passed" if ok else "failed",
                 detail=f"{mm['n_seq']} sequences, {mm['n_valid']} valid" + ("" if ok else f"; false accepts {mm.get('n_false_accept', 0)}, false rejects {mm.get('n_false_reject', 0)}"))
        if mm.get("n_false_accept"):
            ck.violation("C17.iff", f"{_cls(d, 'false-accept')}:{r['name']}", f"design {r['name']}: sample_mismatch_experiment reports no mismatch for the invalid sequence {mm['false_accept'][0]}",
                         _replay(d, strategy="mismatch", example=mm["false_accept"][0]), tags=dict(kind="false-accept", features=SC.feature_class(d)))
        if mm.get("n_false_reject"):
            ck.violation("C17.iff", f"{_cls(d, 'false-reject')}:{r['name']}", f"design {r['name']}: sample_mismatch_experiment reports {mm['false_reject'][0][1]} for the valid sequence {mm['false_reject'][0][0]}",
                         _replay(d, strategy="mismatch", example=mm["false_reject"][0]), tags=dict(kind="false-reject", features=SC.feature_class(d)))
        ck.sample(dict(design=r["name"], sequences=mm["n_seq"], valid=mm["n_valid"], exhaustive=mm.get("exhaustive")))
    ck.rule = "one case per design of D covered by the reference reading; per design every candidate sequence (all level sequences of the basic factors with derived levels filled in)"
    ck.trust(*TRUST[1:])
    ck.assume("candidates are well-formed: derived factors carry the level their definition gives (perturbed derived levels are not enumerated)",
              "bounded design space D")
    return ck.finish()


# =========================================================================================== C06
def c06(tier):
    ck = Check("C06", tier, "exploration",
               "Exhausting RandomGen over D: asked for more sequences than exist it returns exactly the valid set of the reference reading, each once "
               "(times the documented copy multiplicity), and stops; for designs that consist of one crossing round without preamble or leftover and "
               "on which nothing was rejected, metrics['solution_count'] equals the number of valid sequences. A worker that does not finish within the "
               "wall-clock limit is reported undecided (a spinning loop is not turned into a verdict).")
    ds = SC.design_space(tier, seed())
    res = SC.run(ds, ["sets", "RandomGen", "random_metrics"], dict(n=4000 if tier == "quick" else 20000, space_limit=30_000 if tier == "quick" else 200_000),
                 timeout=60 if tier == "quick" else 300)
    byname = {d["name"]: d for d in ds}
    from collections import Counter
    for r in res:
        d = byname[r["name"]]
        if _skip(ck, r, "C06.exhaust"):
            continue
        v = r.get("RandomGen")
        if "build_error" in r or "lo" not in r or not isinstance(v, dict) or "exception" in v:
            ck.count(r["name"], nontrivial=False)
            continue
        if v["n"] >= (4000 if tier == "quick" else 20000):
            ck.oblig(f"C06.exhaust({r['name']})", "E", "undecided", detail="not exhausted within the sample limit")
            continue
        ck.count(r["name"])
        lo, up = set(map(_t, r["lo"])), set(map(_t, r["lo"])) | set(map(_t, r["amb"]))
        keys = [_t(k) for k in v["keys"]]
        ks = set(keys)
        missing, extra = lo - ks, ks - up
        dup = multiplicity_mismatch(d, Counter(keys), lo)
        ok = not missing and not extra and not dup
        ck.oblig(f"C06.exhaust({r['name']})", "E", "passed" if ok else "failed", detail=None if ok else f"missing={len(missing)} extra={len(extra)} multiplicity={dup}")
        if not ok:
            ex = dict(next(iter(missing))) if missing else (dict(next(iter(extra))) if extra else dup)
            ck.violation("C06.exhaust", f"{_cls(d, 'set-mismatch')}:{r['name']}", f"design {r['name']}: exhausted RandomGen differs from the valid set (missing {len(missing)}, extra {len(extra)}, multiplicity {dup}), e.g. {ex}",
                         _replay(d, strategy="RandomGen"), tags=dict(kind="set-mismatch", strategy="RandomGen", features=SC.feature_class(d)))
        m = r.get("random_metrics", {})
        # "designs that need no rejection step": a single CrossBlock whose only constraints are Exclude (handled by construction)
        # and whose derived factors are within-trial (complex windows are sampled by rejection)
        fm_ = model.factor_map(d)
        # an Exclude is handled by construction only when it names a level of a crossed factor (for a derived level: all of whose sources are
        # crossed too); an Exclude on anything else — an uncrossed factor that feeds a crossed derived factor, an uncrossed derived level — is
        # enforced by rejecting candidates, so such a design is outside "designs that need no rejection step"
        def _by_construction(c_):
            cr = d["block"].get("crossing", [])
            F_ = fm_[c_[1]]
            return c_[1] in cr and (not model.is_derived(F_) or all(g_ in cr for g_ in F_["derive"]["deps"]))
        g_ok = (d["block"]["kind"] == "cross" and all(c[0] == "Exclude" and _by_construction(c) for c in d["block"]["constraints"])
                and not any(model.is_derived(fm_[f]) and model._complex(fm_, fm_[f]) for f in d["block"]["design"]))
        if g_ok and m.get("total_rejected") == 0 and m.get("solution_count") is not None and not r["amb"] and "preamble" not in d["tags"]:
            okc = m["solution_count"] == sum(expected_multiplicity(d, k)[0] for k in lo)
            ck.oblig(f"C06.count({r['name']})", "E", "passed" if okc else "failed", detail=None if okc else f"solution_count {m['solution_count']} valid {len(lo)}")
            if not okc:
                ck.violation("C06.count", f"{_cls(d, 'count')}:{r['name']}", f"design {r['name']}: RandomGen reports solution_count {m['solution_count']}, there are {len(lo)} valid sequences",
                             _replay(d, strategy="RandomGen"), tags=dict(kind="count", features=SC.feature_class(d)))
        ck.sample(dict(design=r["name"], valid=len(lo), returned=v["n"], solution_count=m.get("solution_count"), rejected=m.get("total_rejected")))
    ck.rule = "one case per design of D whose sequence space could be enumerated and on which RandomGen finished within the limits"
    ck.trust(*TRUST[1:])
    ck.assume("bounded design space D", "termination of the rejection loop is not proved (wall-clock guard => undecided)")
    return ck.finish()


# =========================================================================================== C09
def c09(tier):
    ck = Check("C09", tier, "exploration",
               "Without-replacement samplers over D: for requested counts n in {0, 1, available-1, available, available+3} IterateSATGen, RandomGen and "
               "IterateGen return min(n, available) sequences; within one call no solution is returned twice — printed duplicates are allowed only "
               "up to the copy multiplicity of weighted levels of factors outside the crossing. The blocking clause that makes this so is C27.")
    ds = SC.design_space(tier, seed(), random_n=25 if tier == "quick" else 300)
    res = SC.run(ds, ["counts"], dict(n=2500, space_limit=20_000 if tier == "quick" else 150_000), timeout=60 if tier == "quick" else 300)
    byname = {d["name"]: d for d in ds}
    from collections import Counter
    for r in res:
        d = byname[r["name"]]
        if _skip(ck, r, "C09.count"):
            continue
        if "build_error" in r or "counts" not in r:
            ck.count(r["name"], nontrivial=False)
            continue
        ck.count(r["name"])
        # "available is the number of distinct solutions": the printed sequences any of the strategies can return when exhausted (no oracle involved)
        exhausted = {s: set(map(_t, rec["full_keys"])) for s, rec in r["counts"].items()
                     if "exception" not in rec and rec.get("full_keys") is not None and rec["available"] < 2500}
        exist = set().union(*exhausted.values()) if exhausted else set()
        for s, ks in exhausted.items():
            if len(exhausted) > 1:
                okx = ks == exist
                ck.oblig(f"C09.as_many_as_exist({r['name']},{s})", "E", "passed" if okx else "failed",
                         detail=None if okx else f"{len(ks)} distinct sequences when asked for more than exist; {len(exist)} distinct solutions are returned by the strategies together")
                if not okx:
                    ex = dict(sorted(exist - ks)[0])
                    ck.violation("C09.as_many_as_exist", f"{_cls(d, 'fewer')}:{r['name']}:{s}",
                                 f"design {r['name']}, {s}: asked for more sequences than exist it returns {len(ks)} distinct sequences, but {len(exist)} distinct solutions exist "
                                 f"(returned by {[t for t, kt in exhausted.items() if kt - ks]}), e.g. never returned: {ex}", _replay(d, strategy=s),
                                 tags=dict(kind="fewer", strategy=s, features=SC.feature_class(d)))
        for s, rec in r["counts"].items():
            if "exception" in rec:
                continue
            avail = rec["available"]
            if avail >= 2500:
                ck.oblig(f"C09.count({r['name']},{s})", "E", "undecided", detail="more solutions than the sample limit")
                continue
            bad = None
            for row in rec["rows"]:
                if "raised" in row:
                    bad = f"requested {row['requested']} of {avail} available: raised {row['raised'][0]}: {row['raised'][1]}"
                elif row["returned"] != min(row["requested"], avail):
                    bad = f"requested {row['requested']} of {avail} available, returned {row['returned']}"
                elif row["keys"] is not None:
                    for k, n in Counter(map(_t, row["keys"])).items():
                        try:
                            cap = expected_multiplicity(d, k)
                            cap = None if cap[1] is None else max(cap)
                        except model.Unsupported:
                            cap = None
                        if cap is not None and n > cap:
                            bad = f"the same sequence returned {n} times in one call (at most {cap} copies are distinct solutions): {dict(k)}"
            ck.oblig(f"C09.count({r['name']},{s})", "E", "passed" if not bad else "failed", detail=bad)
            if bad:
                ck.violation("C09.count", f"{_cls(d, 'count')}:{r['name']}:{s}", f"design {r['name']}, {s}: {bad}", _replay(d, strategy=s),
                             tags=dict(kind="count", strategy=s, features=SC.feature_class(d)))
        ck.sample(dict(design=r["name"], available={s: rec.get("available") for s, rec in r["counts"].items()}))
    ck.rule = "one case per design of D; per design and strategy five requested counts around the number of available solutions"
    ck.trust(*TRUST[1:])
    ck.assume("bounded design space D", "for the requested-count rows 'available' is what the strategy itself returns when asked for more than exist; that this is every distinct "
              "solution is checked relationally (C09.as_many_as_exist: union over the strategies) and against the reference reading in C02/C06")
    return ck.finish()


# =========================================================================================== C25 / C26
def _oracle_sets_check(ck, pid, tier, ds, what):
    res = SC.run(ds, ["sets", "cnf", "IterateSATGen", "RandomGen"], dict(n=4000 if tier == "quick" else 20000, model_limit=4000 if tier == "quick" else 20000,
                                                                          space_limit=70_000 if tier == "quick" else 400_000), timeout=60 if tier == "quick" else 300)
    byname = {d["name"]: d for d in ds}
    out = {}
    for r in res:
        d = byname[r["name"]]
        if _skip(ck, r, f"{pid}.{what}"):
            continue
        if "build_error" in r or "lo" not in r:
            ck.count(r["name"], nontrivial=False)
            if "T_lib" in r:
                out[r["name"]] = r
            continue
        ck.count(r["name"])
        out[r["name"]] = r
        lo, up = set(map(_t, r["lo"])), set(map(_t, r["lo"])) | set(map(_t, r["amb"]))
        okT = r.get("T_lib") == r.get("T_oracle")
        if not okT:
            ck.oblig(f"{pid}.length({r['name']})", "E", "failed", detail=f"{r.get('T_lib')} vs documented {r.get('T_oracle')}")
            ck.violation(f"{pid}.length", f"{_cls(d, 'length')}:{r['name']}", f"design {r['name']}: {r.get('T_lib')} trials, the documentation gives {r.get('T_oracle')}", _replay(d, strategy="trials_per_sample"),
                         tags=dict(kind="length", features=SC.feature_class(d)))
        for src in ("cnf", "IterateSATGen", "RandomGen"):
            v = r.get(src, {})
            if "exception" in v or "keys" not in v:
                continue
            if v.get("truncated") or v.get("n", 0) >= (4000 if tier == "quick" else 20000):
                ck.oblig(f"{pid}.{what}({r['name']},{src})", "E", "undecided", detail="not exhausted")
                continue
            ks = set(map(_t, v["keys"]))
            missing, extra = lo - ks, ks - up
            ok = not missing and not extra
            tier_ = "S" if src == "cnf" else "E"
            ck.oblig(f"{pid}.{what}({r['name']},{src})", tier_, ("proved" if tier_ == "S" else "passed") if ok else ("refuted" if tier_ == "S" else "failed"),
                     detail=None if ok else f"missing {len(missing)} extra {len(extra)}")
            if not ok:
                ex = dict(next(iter(missing))) if missing else dict(next(iter(extra)))
                ck.violation(f"{pid}.{what}", f"{_cls(d, 'set-mismatch')}:{r['name']}:{src}",
                             f"design {r['name']}: {src} solution set differs from the documented one ({len(missing)} valid sequences missing, {len(extra)} invalid present), e.g. {ex}",
                             _replay(d, strategy=src), tags=dict(kind="set-mismatch", strategy=src, features=SC.feature_class(d)))
        ck.sample(dict(design=r["name"], T=r.get("T_lib"), valid=len(lo), ambiguous=len(up) - len(lo)))
    return out


def _nest_reuse_eval(arg):
    """One outer block object nested several times (and both associativity variants built from the same block objects): every Nest must equal the Nest of
    freshly built blocks in trial count and exhausted solution set (C25: 'length is outer x inner', 'nesting is associative' — for the blocks as given)."""
    variant = arg
    import sweetpea as sp

    def blocks():
        c = sp.Factor("c", ["r", "g"])
        d = sp.Factor("d", ["x", "y"])
        e = sp.Factor("e", ["p", "q"])
        outer = sp.CrossBlock([c], [c], [sp.MinimumTrials(4)] if variant == "outer-mintrials" else ([sp.Pin(0, (c, "r"))] if variant == "outer-pin" else []))
        return outer, sp.CrossBlock([d], [d], []), sp.CrossBlock([e], [e], [])
    def facts(b):
        if b.trials_per_sample() > 16:          # a trial count this far off is the finding; do not enumerate
            return b.trials_per_sample(), []
        res = SC.runner.synth(b, 600, "IterateSATGen")
        names = sorted(k for k in res[0].keys()) if res else []
        return b.trials_per_sample(), sorted(set(tuple((k, tuple(x[k])) for k in names) for x in res))
    out = {"variant": variant, "diffs": []}
    try:
        fo, fd, fe = blocks()
        want = {"nest(o,d)": facts(sp.Nest(fo, fd))}
        fo, fd, fe = blocks()
        want["nest(o,e)"] = facts(sp.Nest(fo, fe))
        fo, fd, fe = blocks()
        want["nest(nest(o,d),e)"] = facts(sp.Nest(sp.Nest(fo, fd), fe))
        fo, fd, fe = blocks()
        want["nest(o,nest(d,e))"] = facts(sp.Nest(fo, sp.Nest(fd, fe)))
        o, d, e = blocks()          # the same block objects throughout
        got = {"nest(o,d)": facts(sp.Nest(o, d)), "nest(o,e)": facts(sp.Nest(o, e)),
               "nest(nest(o,d),e)": facts(sp.Nest(sp.Nest(o, d), e)), "nest(o,nest(d,e))": facts(sp.Nest(o, sp.Nest(d, e)))}
        for k in want:
            if want[k] != got[k]:
                out["diffs"].append([k, want[k][0], len(want[k][1]), got[k][0], len(got[k][1])])
        if want["nest(nest(o,d),e)"] != want["nest(o,nest(d,e))"]:
            out["diffs"].append(["associativity(fresh)", want["nest(nest(o,d),e)"][0], len(want["nest(nest(o,d),e)"][1]), want["nest(o,nest(d,e))"][0], len(want["nest(o,nest(d,e))"][1])])
    except Exception as ex:
        out["exception"] = [type(ex).__name__, str(ex)[:200]]
    return out


def c25(tier):
    ck = Check("C25", tier, "other",
               "Nest(outer, inner) over D: trial count = outer x inner (no preamble), outer crossed factors constant within each inner run, outer crossing "
               "over the groups, inner crossing and constraints within each group — decided by comparing the compiled formula's model set (tier S) and "
               "both samplers' exhausted sets with the reference reading; associativity by equality of the solution sets of Nest(Nest(a,b),c) and "
               "Nest(a,Nest(b,c)).")
    from spec import designs as DS
    ds = [d for d in DS.curated() if "nest" in d["tags"]]
    facts = _oracle_sets_check(ck, "C25", tier, ds, "nest")
    # associativity (oracle-free): both nestings, same factors
    res = SC.run([d for d in ds if "nest-nest" in d["tags"]], ["IterateSATGen"], dict(n=5000, space_limit=10**9), timeout=120)
    sets = {r["name"]: r for r in res}
    a, b = sets.get("nest-nest"), sets.get("nest-nest-right")
    if a and b and isinstance(a.get("IterateSATGen"), dict) and isinstance(b.get("IterateSATGen"), dict) and "keys" in a["IterateSATGen"] and "keys" in b["IterateSATGen"]:
        sa, sb = set(map(_t, a["IterateSATGen"]["keys"])), set(map(_t, b["IterateSATGen"]["keys"]))
        ok = sa == sb and a.get("T_lib") == b.get("T_lib")
        ck.oblig("C25.assoc(nest-nest)", "E", "passed" if ok else "failed", detail=f"{len(sa)} vs {len(sb)} sequences, T {a.get('T_lib')} vs {b.get('T_lib')}")
        ck.count("assoc")
        if not ok:
            byname = {d["name"]: d for d in ds}
            ck.violation("C25.assoc", "assoc:nest-nest", f"Nest(Nest(a,b),c) has {len(sa)} sequences of {a.get('T_lib')} trials, Nest(a,Nest(b,c)) has {len(sb)} of {b.get('T_lib')}",
                         _replay(byname["nest-nest"], strategy="IterateSATGen"), tags=dict(kind="assoc"))
    else:
        ck.oblig("C25.assoc(nest-nest)", "E", "undecided", detail="a nesting did not finish")
    # one outer block object nested repeatedly
    vs = ["plain", "outer-mintrials", "outer-pin"]
    for v, (pst, r) in zip(vs, SC.runner.pmap(_nest_reuse_eval, vs, jobs=3, timeout=120)):
        oid = f"C25.reuse({v})"
        if pst != "ok" or "exception" in r:
            ck.oblig(oid, "E", "undecided", detail=str(r)[:200])
            continue
        ck.count(("reuse", v))
        ok = not r["diffs"]
        ck.oblig(oid, "E", "passed" if ok else "failed", detail=None if ok else str(r["diffs"][0]))
        if not ok:
            k, tw, nw, tg, ng = r["diffs"][0]
            ck.violation("C25.reuse", f"reuse:{v}:{k}", f"outer block ({v}) nested repeatedly: {k} has {tg} trials / {ng} sequences, from freshly built blocks {tw} trials / {nw} sequences",
                         dict(replay_kind="nest-reuse", variant=v, diff=r["diffs"][0]), tags=dict(kind="reuse", variant=v))
    ck.rule = "one case per Nest design of the curated core (outer/inner sizes 2-3, constraints on inner block, on the Nest, uncrossed outer factor, nested Nest)"
    ck.trust(*TRUST)
    ck.assume("run-length / Pin / count constraints on the OUTER block are outside the reference reading (docs do not say trials or groups); those designs are only compared between samplers (C07)")
    return ck.finish()


def c26(tier):
    ck = Check("C26", tier, "other",
               "Scoping of constraints under Repeat / Merge / Nest over D: designs placing each constraint class (i) on the inner block and (ii) on the "
               "combinator, with and without preamble and with partial last repetitions; the compiled formula's model set (tier S) and both samplers "
               "are compared with the reference reading (per-repetition windows incl. preceding preamble trials vs. whole sequence). The mechanism is "
               "proved for all inputs by pyvc.wp: map_block_trial_ranges enumerates exactly the windows [s0 + j(L-p), min(s0 + j(L-p) + L, T)).")
    run_wp(ck, ["map_block_trial_ranges", "get_trial_numbers.window"], budget_ms(tier), prefix="C26.link.")
    from spec import designs as DS
    ds = [d for d in DS.curated() if any(t in d["tags"] for t in ("scope-inner", "scope-outer", "repeat", "merge"))]
    ds += [d for d in DS.random_designs(seed(), 60 if tier == "quick" else 600) if "repeat" in d["tags"]]
    facts = _oracle_sets_check(ck, "C26", tier, ds, "scope")
    # inner vs outer placement must differ where the documentation says it does (sanity of the design pairs, oracle-free)
    pairs = [("repeat-atmost-inner-min6", "repeat-atmost-outer-min6"), ("repeat-atmost-crossed-inner", "repeat-atmost-crossed-outer"), ("merge-inner-atmost", "merge-outer-atmost")]
    for i, o in pairs:
        if i in facts and o in facts and "keys" in facts[i].get("IterateSATGen", {}) and "keys" in facts[o].get("IterateSATGen", {}):
            si, so = set(map(_t, facts[i]["IterateSATGen"]["keys"])), set(map(_t, facts[o]["IterateSATGen"]["keys"]))
            ok = so < si
            ck.oblig(f"C26.inner_vs_outer({i})", "E", "passed" if ok else "failed", detail=f"inner placement {len(si)} sequences, combinator placement {len(so)}")
            if not ok:
                byname = {d["name"]: d for d in ds}
                ck.violation("C26.inner_vs_outer", f"scope-pair:{i}", f"the constraint on the combinator ({len(so)} sequences) does not strictly refine the per-repetition placement ({len(si)})",
                             _replay(byname[i], strategy="IterateSATGen"), tags=dict(kind="scope-pair"))
    ck.rule = "one case per composed design of D (curated scope pairs + seeded Repeat designs)"
    ck.trust(*TRUST)
    ck.assume("bounded design space D", "partial last repetition: Pin with negative index, ExactlyK and runs cut at the end are ambiguous in the docs and not judged")
    return ck.finish()


# =========================================================================================== C29
def _smgen_eval(arg):
    d, seeds = arg
    import random as _r
    import numpy as _np
    out = {"name": d["name"], "tags": d["tags"], "runs": []}
    try:
        geo = model.geometry(d)
    except model.Unsupported as e:
        geo = None
        out["oracle_unsupported"] = str(e)
    try:
        block, _ = model.build(d)
    except Exception as e:
        out["build_error"] = [type(e).__name__, str(e)[:200]]
        return out
    names = SC.user_factors(d)
    out["T_lib"] = block.trials_per_sample()
    for sd in seeds:
        _r.seed(sd)
        _np.random.seed(sd)
        try:
            res = SC.runner.synth(block, 3, "SMGen")
            rec = dict(seed=sd, n=len(res), lens=sorted({len(v) for e in res for v in e.values()}))
            bad = []
            if geo is not None:
                for e in res:
                    ok_keys = all(f in e for f in geo["design"])
                    c = model.classify(d, {f: list(e[f]) for f in geo["design"]}, geo) if ok_keys else model.INVALID
                    if c == model.INVALID:
                        bad.append({f: list(e.get(f, [])) for f in names})
            elif res and rec["lens"] != [out["T_lib"]]:
                bad.append(dict(lengths=rec["lens"]))
            rec["invalid"] = bad[:2]
            out["runs"].append(rec)
        except Exception as e:
            msg = str(e)
            refusal = type(e) is Exception and ("not supported by SMGen" in msg or "Unsupported level" in msg)
            out["runs"].append(dict(seed=sd, refused=refusal, exception=None if refusal else [type(e).__name__, msg[:300]]))
            if refusal:
                break
    return out


def c29(tier):
    ck = Check("C29", tier, "other",
               "SMGen either refuses or is valid: (finite-domain, exhaustive) for every concrete Constraint subclass and every block combinator found by "
               "reflection on the current tree a minimal design containing it is given to SMGen.sample, which must raise its unsupported-feature error "
               "or return only valid sequences; (E) every design of D is run with several random seeds and each returned sequence is judged by the "
               "reference reading (trial count, crossing with weights, derived levels, constraints). Not covered: the 60 s timer thread that cuts the "
               "search and the module-global state of scattered_map_core (the 'schedules' quantifier): designs are small enough to finish long before.")
    ck.under_contract("sweetpea._internal.sampling_strategy.smgen:SMGen.sample")
    # ---- reflection: every Constraint subclass must be represented in D (refused or validated)
    import inspect
    import sweetpea._internal.constraint as CT
    from sweetpea._internal.base_constraint import Constraint
    classes = sorted(n for n, o in vars(CT).items() if inspect.isclass(o) and issubclass(o, Constraint) and o is not Constraint and not n.startswith("_"))
    covered = {"Consistency", "Cross", "Derivation", "Sustain", "MinimumTrials", "Reify", "ContinuousConstraint"}  # internal / always present / no effect on discrete trials
    ds = SC.design_space(tier, seed(), random_n=30 if tier == "quick" else 300)
    used = set()

    def walk(node):
        for c in node.get("constraints", []):
            used.add(c[0])
        for k in ("block", "outer", "inner"):
            if k in node:
                walk(node[k])
        for b in node.get("blocks", []):
            walk(b)
    for d in ds:
        walk(d["block"])
    missing = [c for c in classes if c not in used and c not in covered and c != "ExactlyKMultipleInARow"]
    ck.oblig("C29.refusal.classes(reflection)", "E", "passed" if not missing else "undecided",
             detail=f"constraint classes on the tree: {classes}; exercised in D: {sorted(used)}; internal: {sorted(covered)}; not exercised: {missing}")
    res = SC.runner.pmap(_smgen_eval, [(d, list(range(seed(), seed() + (3 if tier == "quick" else 8)))) for d in ds], jobs=12, timeout=40 if tier == "quick" else 120)
    for d, (st, r) in zip(ds, res):
        if st != "ok":
            ck.oblig(f"C29.valid({d['name']})", "E", "undecided", detail=f"worker {st}")
            continue
        if "build_error" in r:
            ck.count(r["name"], nontrivial=False)
            continue
        refused = any(run.get("refused") for run in r["runs"])
        ck.count(r["name"], nontrivial=not refused)
        ck.extra["refused"] = ck.extra.get("refused", 0) + (1 if refused else 0)
        bad = None
        for run in r["runs"]:
            if run.get("exception"):
                bad = f"raised {run['exception'][0]}: {run['exception'][1]} (not the documented unsupported-feature error)"
            elif run.get("invalid"):
                bad = f"returned an invalid sequence {run['invalid'][0]} (seed {run['seed']})"
        ck.oblig(f"C29.valid({r['name']})", "E", "passed" if not bad else "failed", detail="refused" if refused else bad)
        if bad:
            ck.violation("C29.valid", f"{_cls(d, 'smgen')}:{r['name']}", f"design {r['name']}: SMGen {bad}", _replay(d, strategy="SMGen"),
                         tags=dict(kind="smgen", features=SC.feature_class(d), block=d["block"]["kind"]))
        ck.sample(dict(design=r["name"], refused=refused, runs=[{k: v for k, v in run.items() if k != "invalid"} for run in r["runs"]][:2]))
    ck.rule = "one case per design of D x random seeds; non-trivial = SMGen accepted the design (did not raise its unsupported-feature error)"
    ck.trust(*TRUST[1:])
    ck.assume("timer interleavings of the search (threading.Timer) are not explored", "bounded design space D")
    return ck.finish()


# =========================================================================================== C24
def _pair_eval(arg):
    name, da, db = arg
    out = {"name": name}
    if name.endswith("@after-combinators"):
        # the same equivalence, evaluated in a process in which other combinators over constrained blocks were built first (the way a script
        # that defines several designs behaves): the documented equivalences are about the constructors' arguments, not about what was built before
        try:
            import sweetpea as sp
            p_, q_ = sp.Factor("c", ["r", "g"]), sp.Factor("d", ["x", "y"])
            b1 = sp.CrossBlock([p_, q_], [p_], [sp.AtMostKInARow(1, (q_, "x")), sp.MinimumTrials(4)])
            sp.Merge([b1])
            sp.Nest(sp.CrossBlock([p_], [p_], [sp.MinimumTrials(2)]), sp.CrossBlock([q_], [q_], []))
            sp.Repeat(b1, [sp.MinimumTrials(8)])
        except Exception as e:
            out["warmup_exception"] = [type(e).__name__, str(e)[:200]]
    for tag, d in (("a", da), ("b", db)):
        try:
            block, _ = model.build(d)
            T = block.trials_per_sample()
            res = SC.runner.synth(block, 6000, "IterateSATGen")
            names = SC.user_factors(d)
            out[tag] = dict(T=T, n=len(res), keys=sorted(set(SC.key_of_exp(e, names) for e in res)), errors=sorted(e for e in block.errors if "WARNING" not in e))
        except Exception as e:
            out[tag] = dict(rejected=[type(e).__name__, str(e)[:200]])
    return out


def equivalence_pairs(tier, sd):
    import copy
    from spec import designs as DS
    pairs = []
    base = DS.curated() + DS.random_designs(sd, 12 if tier == "quick" else 400)
    lim = 20_000 if tier == "quick" else 300_000

    def small(d):
        try:
            return model.space_size(d) <= lim
        except model.Unsupported:
            return "random" not in d["tags"]
    for d in base:
        if not small(d):
            continue
        blk = d["block"]
        mk = lambda b: {"name": d["name"], "factors": d["factors"], "block": b, "tags": d["tags"]}
        if blk["kind"] == "multi":
            m = DS.merge([DS.cross(blk["design"], c, [], blk.get("rcc", True)) for c in blk["crossings"]], blk["constraints"], mode=blk.get("mode", "equal"), alignment=blk.get("alignment"))
            pairs.append((f"multicross_eq_merge:{d['name']}", d, mk(m)))
        if blk["kind"] == "repeat" and blk["block"]["kind"] in ("cross", "multi"):
            m = DS.merge([blk["block"]], blk["constraints"], mode="repeat", alignment="equal preamble")
            pairs.append((f"repeat_eq_merge:{d['name']}", d, mk(m)))
        if blk["kind"] == "cross":
            pairs.append((f"repeat_empty_id:{d['name']}", d, mk(DS.repeat(blk, []))))
            pairs.append((f"merge_single_id:{d['name']}", d, mk(DS.merge([blk]))))
            m = DS.multi(blk["design"], [blk["crossing"]], blk["constraints"], blk.get("rcc", True), mode="weight")
            pairs.append((f"cross_eq_multicross_weight:{d['name']}", d, mk(m)))
    # a few of the pairs again in a process that built other combinators first
    for nm_, da_, db_ in [p_ for p_ in pairs if p_[0].split(":")[1] in ("cross-2x2", "atmost1-uncrossed", "cross-2+uncrossed", "min-4-of-2", "exactlyk2-uncrossed")
                          and p_[0].split(":")[0] in ("merge_single_id", "repeat_empty_id")]:
        pairs.append((nm_ + "@after-combinators", da_, db_))
    # two MinimumTrials objects meet in one block — one on the inner block, one given to the combinator — in both orders of magnitude
    # (Repeat lists the block's constraints first, Merge lists them last: the result must not depend on that order)
    c2m, d2m = DS.fac("c", DS.A2), DS.fac("d", ["x", "y"])
    for inner_n, outer_n in ((6, 4), (4, 6), (4, 4), (3, 5)):
        for facs, design, crossing in (([c2m], ["c"], ["c"]),):
            inner = DS.cross(design, crossing, [["MinimumTrials", inner_n]])
            a_ = DS.D(f"repeat-min{inner_n}-inner-min{outer_n}-outer-{len(design)}f", facs, DS.repeat(inner, [["MinimumTrials", outer_n]]), ["mintrials"])
            b_ = DS.D(a_["name"], facs, DS.merge([inner], [["MinimumTrials", outer_n]], mode="repeat", alignment="equal preamble"), ["mintrials"])
            pairs.append((f"repeat_eq_merge:{a_['name']}", a_, b_))
    # multi-crossing designs with every mode and alignment
    c2, d2, f3 = DS.fac("c", DS.A2), DS.fac("d", ["x", "y"]), DS.fac("f", ["p", "q", "s"])
    tr = DS.transition_rep("t", "c", DS.A2)
    for mode in ("weight", "repeat", "equal"):
        for al in ("equal preamble", "parallel start", "post preamble"):
            for facs, design, crossings, cons in (([c2, f3], ["c", "f"], [["c"], ["f"]], []),
                                                  ([c2, d2], ["c", "d"], [["c"], ["d"]], [["AtMostKInARow", 1, "c", "r"]]),
                                                  ([c2, d2, tr], ["c", "d", "t"], [["c", "t"], ["d"]], []),
                                                  ([c2, f3, d2], ["c", "f", "d"], [["c"], ["f"]], [["ExactlyK", 1, "d", "x"]])):
                a = DS.D(f"m-{mode}-{al}-{len(pairs)}", facs, DS.multi(design, crossings, cons, mode=mode, alignment=al))
                b = DS.D(a["name"], facs, DS.merge([DS.cross(design, c, []) for c in crossings], cons, mode=mode, alignment=al))
                pairs.append((f"multicross_eq_merge:{a['name']}", a, b))
    return pairs


def replay_equiv(p):
    """re-run one documented-equivalence pair of a C24 replay file against the real constructors -> True iff it still fails"""
    r = _pair_eval((p.get("key", "pair"), p["left"], p["right"]))
    a, b = r["a"], r["b"]
    print("left:", {k: (v if k != "keys" else len(v)) for k, v in a.items()}, "\nright:", {k: (v if k != "keys" else len(v)) for k, v in b.items()})
    if "rejected" in a or "rejected" in b:
        return ("rejected" in a) != ("rejected" in b)
    return not (a["T"] == b["T"] and a["keys"] == b["keys"] and bool(a["errors"]) == bool(b["errors"]))


def c24(tier):
    ck = Check("C24", tier, "exploration",
               "Relational contracts between the block constructors (no oracle): for each pair of constructions the documentation equates — "
               "MultiCrossBlock vs Merge of CrossBlocks, Repeat vs Merge REPEAT/EQUAL_PREAMBLE, Repeat(block, []) and Merge([block]) vs block, CrossBlock vs "
               "single-crossing MultiCrossBlock in WEIGHT mode — both sides are built from fresh objects; they must both be rejected or both accepted, "
               "report the same trial count and have equal exhausted IterateSATGen solution sets.")
    pairs = equivalence_pairs(tier, seed())
    res = SC.runner.pmap(_pair_eval, pairs, jobs=14, timeout=30 if tier == "quick" else 300)
    for (name, da, db), (st, r) in zip(pairs, res):
        kind = name.split(":")[0]
        if st != "ok":
            ck.oblig(f"C24.{name}", "E", "undecided", detail=f"worker {st}")
            continue
        a, b = r["a"], r["b"]
        if "rejected" in a or "rejected" in b:
            ok = ("rejected" in a) == ("rejected" in b)
            ck.count(name, nontrivial=False)
            detail = f"left {a.get('rejected', 'accepted')}, right {b.get('rejected', 'accepted')}"
        else:
            ck.count(name)
            if a["n"] >= 6000 or b["n"] >= 6000:
                ck.oblig(f"C24.{name}", "E", "undecided", detail="not exhausted")
                continue
            ok = a["T"] == b["T"] and a["keys"] == b["keys"] and bool(a["errors"]) == bool(b["errors"])
            detail = f"T {a['T']} vs {b['T']}, {len(a['keys'])} vs {len(b['keys'])} sequences, errors {a['errors'][:1]} vs {b['errors'][:1]}"
        ck.oblig(f"C24.{name}", "E", "passed" if ok else "failed", detail=None if ok else detail)
        if not ok:
            ck.violation(f"C24.{kind}", f"{kind}:{name.split(':', 1)[1]}", f"documented equivalence {kind} fails for {name.split(':', 1)[1]}: {detail}",
                         dict(replay_kind="pair", left=da, right=db), tags=dict(kind=kind, features=SC.feature_class(da)))
        ck.sample(dict(pair=name, T=a.get("T"), sequences=len(a.get("keys", []))))
    ck.rule = "one case per (equivalence, design): derived from the curated core, seeded random designs and a mode x alignment grid; non-trivial = both sides accepted"
    ck.trust(*TRUST[:2])
    ck.assume("bounded design space D")
    return ck.finish()


# =========================================================================================== C23
def expand_weights(d, only=None):
    """copy-expanded twin: every weighted level l (weight w) of a non-derived factor becomes w levels 'l#1'..'l#w' of weight 1;
    derivation tables of dependent factors are re-keyed so that every copy behaves as l.  -> (twin description, rename-back map)"""
    import copy
    import itertools
    t = copy.deepcopy(d)
    back = {}
    copies = {}
    for F in t["factors"]:
        if model.is_derived(F) or (only is not None and F["name"] not in only):
            continue
        new = []
        for l, w in F["levels"]:
            if w > 1:
                names = [f"{l}#{i + 1}" for i in range(w)]
                copies[(F["name"], l)] = names
                for nm in names:
                    back[(F["name"], nm)] = l
                    new.append([nm, 1])
            else:
                new.append([l, 1])
        F["levels"] = new
    for F in t["factors"]:
        if not model.is_derived(F):
            continue
        dv = F["derive"]
        newtab = {}
        for key, acc in dv["table"].items():
            per_dep = [part.split(",") for part in key.split("|")]
            choices = []
            for dep, vals in zip(dv["deps"], per_dep):
                choices.append([copies.get((dep, v), [v]) for v in vals])
            for combo in itertools.product(*[itertools.product(*c) for c in choices]):
                newtab["|".join(",".join(vs) for vs in combo)] = acc
        dv["table"] = newtab
    t["name"] = d["name"] + "-twin"
    return t, back


def _twin_eval(arg):
    d, twin, back = arg[:3]
    ptwin, pback = arg[3:5] if len(arg) > 3 and arg[3] is not None else (None, None)
    out = {"name": d["name"]}
    names = SC.user_factors(d)
    for tag, dd in (("weighted", d), ("twin", twin)) + ((("ptwin", ptwin),) if ptwin is not None else ()):
        for strat in ("IterateSATGen", "RandomGen"):
            try:
                block, _ = model.build(dd)
                res = SC.runner.synth(block, 8000, strat)
                keys = []
                for e in res:
                    if tag in ("twin", "ptwin"):
                        bk = back if tag == "twin" else pback
                        e = {f: [bk.get((f, v), v) for v in vals] for f, vals in e.items()}
                    keys.append(SC.key_of_exp(e, names))
                out[f"{tag}:{strat}"] = dict(n=len(res), keys=keys, T=block.trials_per_sample())
            except Exception as e:
                out[f"{tag}:{strat}"] = dict(exception=[type(e).__name__, str(e)[:200]])
    return out


def weighted_designs(tier, sd):
    from spec import designs as DS
    c2w = DS.fac("c", [["r", 2], ["g", 1]])
    d2, d2w = DS.fac("d", ["x", "y"]), DS.fac("d", [["x", 2], ["y", 1]])
    e3w = DS.fac("e", [["r", 1], ["g", 2], ["b", 1]])
    out = [DS.D("w-crossed", [c2w], DS.cross(["c"], ["c"])),
           DS.D("w-crossed-2x2", [c2w, d2], DS.cross(["c", "d"], ["c", "d"])),
           DS.D("w-crossed-both", [c2w, d2w], DS.cross(["c", "d"], ["c", "d"])),
           DS.D("w-crossed-plus-uncrossed", [c2w, d2], DS.cross(["c", "d"], ["c"])),
           DS.D("w-uncrossed", [DS.fac("c", DS.A2), d2w], DS.cross(["c", "d"], ["c"])),
           DS.D("w-uncrossed-3", [DS.fac("c", DS.A2), e3w], DS.cross(["c", "e"], ["c"])),
           DS.D("w-uncrossed-mintrials", [DS.fac("c", DS.A2), d2w], DS.cross(["c", "d"], ["c"], [["MinimumTrials", 3]])),
           DS.D("w-crossed-mintrials", [c2w], DS.cross(["c"], ["c"], [["MinimumTrials", 5]])),
           DS.D("w-crossed-derived-ref", [c2w, DS.fac("w", DS.A2), DS.within_eq("k", "c", "w", DS.A2, DS.A2)], DS.cross(["c", "w", "k"], ["c", "w"])),
           DS.D("w-uncrossed-derived-ref", [DS.fac("c", DS.A2), d2w, DS.within_eq("k", "c", "d", DS.A2, ["x", "y"])], DS.cross(["c", "d", "k"], ["c"])),
           DS.D("w-uncrossed-transition-ref", [DS.fac("c", DS.A2), d2w, DS.transition_rep("t", "d", ["x", "y"])], DS.cross(["c", "d", "t"], ["c"], [["MinimumTrials", 3]])),
           DS.D("w-uncrossed-constraint-other", [DS.fac("c", DS.A2), d2w], DS.cross(["c", "d"], ["c"], [["AtMostKInARow", 1, "c", "r"], ["MinimumTrials", 4]])),
           DS.D("w-multi-partly-crossed", [c2w, DS.fac("f", ["p", "q", "s"])], DS.multi(["c", "f"], [["c"], ["f"]], mode="weight")),
           DS.D("w-repeat", [c2w], DS.repeat(DS.cross(["c"], ["c"]), [["MinimumTrials", 6]])),
           # the weighted factor is outside the crossing and its copies feed a CROSSED derived factor
           DS.D("w-uncrossed-feeds-crossed-derived", [c2w, DS.fac("w", DS.A2), DS.within_eq("k", "c", "w", DS.A2, DS.A2)], DS.cross(["c", "w", "k"], ["k"])),
           DS.D("w-uncrossed-feeds-crossed-derived-2", [c2w, DS.fac("w", DS.A2), DS.within_eq("k", "c", "w", DS.A2, DS.A2)], DS.cross(["c", "w", "k"], ["w", "k"])),
           DS.D("w-uncrossed-3-feeds-crossed-derived", [DS.fac("c", [["r", 3], ["g", 1]]), DS.fac("w", DS.A2), DS.within_eq("k", "c", "w", DS.A2, DS.A2)], DS.cross(["c", "w", "k"], ["k"])),
           # weighted factors inside combinators
           DS.D("w-nest-inner-uncrossed", [DS.fac("c", DS.A2), DS.fac("g", ["u", "v"]), d2w], DS.nest(DS.cross(["c"], ["c"]), DS.cross(["g", "d"], ["g"]))),
           DS.D("w-merge-uncrossed", [DS.fac("c", DS.A2), DS.fac("g", ["u", "v"]), d2w], DS.merge([DS.cross(["g"], ["g"]), DS.cross(["c", "d"], ["c"])]))]
    for d in DS.random_designs(sd, 60 if tier == "quick" else 600):
        if any(w > 1 for F in d["factors"] if not model.is_derived(F) for _, w in F["levels"]):
            # constraints that name a weighted level cannot be expressed on separately named copies
            fm = model.factor_map(d)
            def names_weighted(node):
                for c in node.get("constraints", []):
                    f = c[2] if c[0] in ("AtMostKInARow", "AtLeastKInARow", "ExactlyKInARow", "ExactlyK", "Pin") else None
                    if f and not model.is_derived(fm[f]) and any(w > 1 for _, w in fm[f]["levels"]):
                        return True
                return any(names_weighted(node[k]) for k in ("block",) if k in node)
            if not names_weighted(d["block"]):
                out.append(d)
    return out


def c23(tier):
    ck = Check("C23", tier, "other",
               "Weighted levels vs their copy-expanded twin (relational, no oracle): each design with weighted levels of non-derived factors is built twice — "
               "with weights, and with every weighted level replaced by separately named weight-1 copies (derivation tables re-keyed) — and both are exhausted "
               "with IterateSATGen and RandomGen. Renaming the copies back, the sets of printed sequences must be equal; when the weighted factor is in every "
               "crossing each printed sequence is one solution (no extra distinct solutions), otherwise the multisets must be equal (copies are distinct solutions).")
    # proved link: the counting requests of the crossing constraint (chunks of crossing_size*crossing_weight trials, EQ weight*crossing_weight per
    # complete chunk, LT weight*crossing_weight+1 on a trailing partial chunk) — Cross.__add_weight_constraint for all inputs
    run_wp(ck, ["add_weight_constraint"], budget_ms(tier), prefix="C23.link.")
    ds = [d for d in weighted_designs(tier, seed())]
    small = []
    for d in ds:
        try:
            if model.space_size(expand_weights(d)[0]) <= (40_000 if tier == "quick" else 400_000):
                small.append(d)
        except model.Unsupported:
            small.append(d)
    args = []
    for d in small:
        # factors in some but not every crossing: a second twin that expands only the factors that are not in every crossing
        # (the property: "not in every crossing => behaves exactly like w separately named copies")
        try:
            _, free, partly = _weighted_split(d)
        except model.Unsupported:
            free, partly = [], []
        pt = expand_weights(d, only=set(free) | set(partly)) if partly else (None, None)
        args.append((d,) + expand_weights(d) + pt + (partly,))
    res = SC.runner.pmap(_twin_eval, args, jobs=14, timeout=60 if tier == "quick" else 300)
    from collections import Counter
    for (d, twin, back, ptwin, pback, partly), (st, r) in zip(args, res):
        if st != "ok":
            ck.oblig(f"C23.twin({d['name']})", "E", "undecided", detail=f"worker {st}")
            continue
        for strat in ("IterateSATGen", "RandomGen"):
            a, b = r.get(f"weighted:{strat}", {}), r.get(f"twin:{strat}", {})
            if "exception" in a or "exception" in b:
                if ("exception" in a) != ("exception" in b):
                    ck.oblig(f"C23.twin({d['name']},{strat})", "E", "undecided", detail=f"only one side raised: {a.get('exception') or b.get('exception')} (C08)")
                continue
            if a["n"] >= 8000 or b["n"] >= 8000:
                ck.oblig(f"C23.twin({d['name']},{strat})", "E", "undecided", detail="not exhausted")
                continue
            ck.count((d["name"], strat))
            ka, kb = Counter(map(_t, a["keys"])), Counter(map(_t, b["keys"]))
            g = None
            try:
                g = model.geometry(d)
            except model.Unsupported:
                pass
            fm = model.factor_map(d)
            weighted = [F["name"] for F in d["factors"] if not model.is_derived(F) and any(w > 1 for _, w in F["levels"])]
            everywhere = g is not None and all(all(f in c["factors"] for c in g["crossings"]) for f in weighted)
            bad = None
            if a["T"] != b["T"] * 1 and not everywhere:
                bad = f"trial counts differ: {a['T']} vs twin {b['T']}"
            if set(ka) != set(kb):
                bad = f"printed sequences differ: {len(set(ka) - set(kb))} only weighted, {len(set(kb) - set(ka))} only twin"
            elif everywhere and any(n != 1 for n in ka.values()):
                bad = "a weighted crossed level produced the same sequence as several distinct solutions"
            elif not everywhere and g is not None and not any(f in c["factors"] for f in weighted for c in g["crossings"]) and ka != kb:
                bad = "multiplicities differ from the copy-expanded twin"
            ck.oblig(f"C23.twin({d['name']},{strat})", "E", "passed" if not bad else "failed", detail=bad)
            if not bad and partly:
                c_ = r.get(f"ptwin:{strat}", {})
                if "exception" in c_ or not c_:
                    ck.oblig(f"C23.twin.partly({d['name']},{strat})", "E", "undecided", detail=f"partial twin raised {c_.get('exception')} (C08)")
                elif c_["n"] >= 8000:
                    ck.oblig(f"C23.twin.partly({d['name']},{strat})", "E", "undecided", detail="not exhausted")
                else:
                    kc = Counter(map(_t, c_["keys"]))
                    okp = ka == kc
                    ck.oblig(f"C23.twin.partly({d['name']},{strat})", "E", "passed" if okp else "failed",
                             detail=None if okp else f"{sum(ka.values())} solutions, twin with separately named copies {sum(kc.values())}")
                    if not okp:
                        # the recorded finding is exactly: same printed sequences, and the copies of the partly crossed factor(s) are
                        # not distinct solutions (every count is the copy product of the factors that are in no crossing)
                        exact = set(ka) == set(kc) and all(n == expected_multiplicity(d, k)[0] for k, n in ka.items())
                        kind = "partly-crossed-copies-not-distinct" if exact else "twin-multiplicity"
                        ex = next(k for k in kc if ka.get(k) != kc[k])
                        ck.violation("C23.twin.partly", f"{kind}:{d['name']}:{strat}",
                                     f"design {d['name']} ({strat}): weighted factor(s) {partly} are in some but not every crossing; {sum(ka.values())} solutions are returned, "
                                     f"the twin with separately named copies has {sum(kc.values())}, e.g. {dict(ex)} {ka.get(ex, 0)}x vs {kc[ex]}x",
                                     dict(replay_kind="pair", left=d, right=ptwin, rename_back=[list(k) + [v] for k, v in pback.items()], multiset=True),
                                     tags=dict(kind=kind, strategy=strat, features=SC.feature_class(d) + ["weighted-factor-in-some-but-not-every-crossing"]))
            if bad:
                ck.violation("C23.twin", f"{_cls(d, 'twin')}:{d['name']}:{strat}", f"design {d['name']} ({strat}): {bad}", dict(replay_kind="pair", left=d, right=twin, rename_back=[list(k) + [v] for k, v in back.items()]),
                             tags=dict(kind="twin", strategy=strat, features=SC.feature_class(d)))
        ck.sample(dict(design=d["name"], weighted=r.get("weighted:IterateSATGen", {}).get("n"), twin=r.get("twin:IterateSATGen", {}).get("n")))
    ck.rule = "one case per (weighted design, strategy): curated weighted designs (crossed, uncrossed, both, referenced by within-trial and transition derivations, under MinimumTrials, MultiCrossBlock, Repeat) + seeded ones"
    ck.trust(*TRUST[:2])
    ck.assume("constraints that name a weighted level are not expressible on separately named copies and are excluded from the twin comparison (they are covered by C01/C02 through the reference reading)")
    return ck.finish()
