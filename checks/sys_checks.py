"""Whole-system properties decided over the bounded design space D (tier E, with the inner "all models" quantifier
decided by SAT where the artefact is a formula: tier S).  One judge function per property; shared evaluation."""
from __future__ import annotations

import math

from pyvc.report import Check, seed
from pyvc.smt import budget_ms
from spec import model
from checks import sys_common as SC
from checks.wp_common import run_wp

TRUST = ["pycryptosat (models returned are re-checked against the reference reading; 'unsat' is trusted)",
         "CPython / sweetpea's own dependencies", "spec/model.py: the reference reading of docs/_source/api/*.rst (three-valued; see spec/ORACLE_DECISIONS.md)"]


def _fails(r, strat):
    v = r.get(strat)
    return isinstance(v, dict) and "exception" in v


def _cls(d, extra=""):
    fc = SC.feature_class(d)
    return ("+".join(fc) if fc else "plain") + (":" + extra if extra else "")


def _replay(d, **kw):
    return SC.design_replay(d, **kw)


def _count_design(ck, r, interesting=True):
    ck.count(r["name"], nontrivial=interesting and "build_error" not in r and "timeout" not in r and "worker_error" not in r)


def _skip(ck, r, oid):
    """timeouts / worker crashes of the harness are undecided, never violations"""
    if "timeout" in r:
        ck.oblig(f"{oid}({r['name']})", "E", "undecided", detail=f"worker timed out after {r['timeout']}s")
        return True
    if "worker_error" in r:
        ck.oblig(f"{oid}({r['name']})", "E", "undecided", detail=f"worker error {r['worker_error'][:2]}")
        return True
    if "skipped" in r:
        ck.extra["designs_outside_bound"] = ck.extra.get("designs_outside_bound", 0) + 1
        return True
    return False


def expected_multiplicity(d, key):
    """C09/C23: a printed sequence may occur once per choice of copy of a weighted level of a non-derived factor that is
    not in every crossing (Level documentation)."""
    fm = model.factor_map(d)
    g = model.geometry(d)
    crossed_everywhere = set.intersection(*[set(c["factors"]) for c in g["crossings"]]) if g["crossings"] else set()
    mult = 1
    for f, vals in key:
        F = fm[f]
        if model.is_derived(F) or f in crossed_everywhere:
            continue
        w = dict(map(tuple, F["levels"]))
        for v in vals:
            mult *= w.get(v, 1)
    return mult


# =========================================================================================== C01
def c01(tier):
    ck = Check("C01", tier, "other",
               "Contract on synthesize_trials for formula-based strategies: every returned sequence satisfies the reference reading "
               "of the documentation. Decided per design of the bounded space D: (S) every model of the real compiled formula "
               "(build_backend_request + combine_cnf_with_requests), enumerated with an independent blocking loop and projected on "
               "the trial variables, decodes to a sequence that is not INVALID — all models, so no solver luck; (E) the sequences "
               "actually returned by IterateSATGen (thorough: CMSGen, UniGen, IterateGen) are checked the same way. Deductive links "
               "proved for all inputs by pyvc.wp: repetition windows (map_block_trial_ranges), applicability (applies_to_trial); "
               "cardinality/adder encodings are C10/C12.")
    run_wp(ck, ["map_block_trial_ranges", "applies_to_trial"], budget_ms(tier), prefix="C01.link.")
    ds = SC.design_space(tier, seed())
    strats = ["IterateSATGen"] + (["CMSGen", "UniGen", "IterateGen"] if tier == "thorough" else [])
    res = SC.run(ds, ["cnf"] + strats, dict(n=400 if tier == "quick" else 2000, model_limit=1500 if tier == "quick" else 6000))
    byname = {d["name"]: d for d in ds}
    for r in res:
        d = byname[r["name"]]
        if _skip(ck, r, "C01.cnf.sound"):
            continue
        if "build_error" in r or "oracle_unsupported" in r:
            ck.count(r["name"], nontrivial=False)
            continue
        _count_design(ck, r)
        cnf = r.get("cnf", {})
        if "exception" in cnf:
            ck.oblig(f"C01.cnf.sound({r['name']})", "S", "undecided", detail=f"compilation raised {cnf['exception'][:2]} (C08's concern)")
        else:
            ok = cnf.get("n_invalid", 0) == 0
            ck.oblig(f"C01.cnf.sound({r['name']})", "S", "proved" if ok else "refuted", "pycryptosat", 0.0,
                     None if ok else f"{cnf['n_invalid']} of {cnf['n_models']} models decode to invalid sequences")
            if not ok:
                ck.violation("C01.cnf.sound", f"{_cls(d, 'invalid-model')}:{r['name']}",
                             f"design {r['name']}: a model of the compiled formula decodes to a sequence that violates the documented design: {cnf['invalid'][0]}",
                             _replay(d, strategy="cnf", invalid=cnf["invalid"]))
            if cnf.get("truncated"):
                ck.extra.setdefault("truncated_model_enumerations", []).append(r["name"])
        for s in strats:
            v = r.get(s)
            if not isinstance(v, dict) or "exception" in v:
                continue
            ok = v.get("n_invalid", 0) == 0 and (not v["lens"] or v["lens"] == [r["T_oracle"]])
            ck.oblig(f"C01.e2e({r['name']},{s})", "E", "passed" if ok else "failed", detail=None if ok else f"invalid={v.get('n_invalid')} lens={v['lens']} T={r['T_oracle']}")
            if not ok:
                ck.violation("C01.e2e", f"{_cls(d, 'invalid-output')}:{r['name']}:{s}",
                             f"design {r['name']}: {s} returned a sequence that violates the documented design: {(v.get('invalid') or [v['lens']])[0]}",
                             _replay(d, strategy=s, invalid=v.get("invalid")))
        ck.sample(dict(design=r["name"], T=r.get("T_lib"), models=cnf.get("n_models"), returned=r.get("IterateSATGen", {}).get("n")))
    ck.rule = ("one case per design of D (curated core + VERIF_SEED random draws); non-trivial = constructs, is covered by the reference "
               "reading, compiles; per design all models of the formula are enumerated (up to the stated limit)")
    ck.exhaustive = False
    ck.trust(*TRUST)
    ck.assume("bounded design space D (spec/designs.py); no extrapolation to other designs",
              "solver models: pycryptosat trusted to be sound; every model is re-checked, so only completeness of enumeration relies on 'unsat'")
    return ck.finish()


# =========================================================================================== C02
def c02(tier):
    ck = Check("C02", tier, "other",
               "Exhausting IterateSATGen returns exactly the valid sequences: per design of D the set returned by synthesize_trials "
               "with N above the solution count is compared with the independently enumerated valid set of the reference reading "
               "(lower bound: definitely valid, upper bound: not definitely invalid) and each sequence must occur once (times the "
               "documented copy multiplicity of weighted uncrossed levels); the same for the projected model set of the compiled formula "
               "(tier S). Links proved by pyvc.wp/concolic: blocking-clause exactness is C27, cardinality encodings C10.")
    ds = SC.design_space(tier, seed())
    res = SC.run(ds, ["sets", "cnf", "IterateSATGen"], dict(n=4000 if tier == "quick" else 20000, model_limit=4000 if tier == "quick" else 20000,
                              space_limit=60_000 if tier == "quick" else 400_000), timeout=45 if tier == "quick" else 300)
    byname = {d["name"]: d for d in ds}
    for r in res:
        d = byname[r["name"]]
        if _skip(ck, r, "C02.exhaust"):
            continue
        if "build_error" in r or "oracle_unsupported" in r or "lo" not in r:
            ck.count(r["name"], nontrivial=False)
            continue
        _count_design(ck, r)
        lo, up = set(map(_t, r["lo"])), set(map(_t, r["lo"])) | set(map(_t, r["amb"]))
        for src in ("cnf", "IterateSATGen"):
            v = r.get(src, {})
            if "exception" in v:
                ck.oblig(f"C02.{src}.exact({r['name']})", "E", "undecided", detail=f"raised {v['exception'][:2]} (C08)")
                continue
            keys = [_t(k) for k in v.get("keys", [])]
            if src == "cnf" and v.get("truncated") or src != "cnf" and v.get("n", 0) >= 4000 and tier == "quick":
                ck.oblig(f"C02.{src}.exact({r['name']})", "E", "undecided", detail="enumeration truncated at the limit")
                continue
            ks = set(keys)
            missing, extra = lo - ks, ks - up
            dup = None
            from collections import Counter
            cnt = Counter(keys)
            for k, n in cnt.items():
                try:
                    want = expected_multiplicity(d, k)
                except Exception:
                    want = None
                if want is not None and n != want and k in lo:
                    dup = (k, n, want)
                    break
            ok = not missing and not extra and dup is None
            tier_ = "S" if src == "cnf" else "E"
            ck.oblig(f"C02.{src}.exact({r['name']})", tier_, ("proved" if tier_ == "S" else "passed") if ok else ("refuted" if tier_ == "S" else "failed"),
                     detail=None if ok else f"missing={len(missing)} extra={len(extra)} multiplicity={dup}")
            if not ok:
                what = []
                if missing:
                    what.append(f"{len(missing)} valid sequence(s) never returned, e.g. {dict(next(iter(missing)))}")
                if extra:
                    what.append(f"{len(extra)} invalid sequence(s) returned, e.g. {dict(next(iter(extra)))}")
                if dup:
                    what.append(f"sequence returned {dup[1]}x, expected {dup[2]}x: {dict(dup[0])}")
                ck.violation(f"C02.{src}.exact", f"{_cls(d, 'set-mismatch')}:{r['name']}:{src}",
                             f"design {r['name']}: exhausted {'compiled formula' if src == 'cnf' else 'IterateSATGen'} differs from the valid set: " + "; ".join(what),
                             _replay(d, strategy=src, valid=len(lo), ambiguous=len(up) - len(lo), returned=len(keys)))
        ck.sample(dict(design=r["name"], valid=len(lo), ambiguous=len(up) - len(lo), returned=r.get("IterateSATGen", {}).get("n")))
    ck.rule = "one case per design of D whose full sequence space could be enumerated (<= 150000 candidates); non-trivial = constructs and is covered by the reference reading"
    ck.trust(*TRUST)
    ck.assume("bounded design space D", "valid set computed by brute force over all level sequences of the basic factors")
    return ck.finish()


def _t(k):
    return tuple((f, tuple(v)) for f, v in k)


# =========================================================================================== C03
def c03(tier):
    ck = Check("C03", tier, "other",
               "Each trial sequence is exactly one model: per design of D every model of the real compiled formula, projected on the "
               "trial variables, is asked for a second extension to the auxiliary variables (must be unsat: decided by SAT for every "
               "projected model, tier S). The deductive reason is Lemma DE over the builder contracts: Tseitin definitions (C11), "
               "adder/pop-count definitions and unit-fixed padding (C12, C10: obligation kind .defs proves every fresh variable is "
               "defined exactly once).")
    ds = SC.design_space(tier, seed())
    res = SC.run(ds, ["cnf"], dict(model_limit=800 if tier == "quick" else 5000))
    byname = {d["name"]: d for d in ds}
    for r in res:
        d = byname[r["name"]]
        if _skip(ck, r, "C03.unique"):
            continue
        cnf = r.get("cnf")
        if "build_error" in r or not cnf or "exception" in cnf or cnf.get("errors"):
            ck.count(r["name"], nontrivial=False)
            continue
        ck.count(r["name"], nontrivial=cnf["n_models"] > 0)
        ok = cnf["n_non_unique"] == 0
        ck.oblig(f"C03.unique({r['name']})", "S", "proved" if ok else "refuted", "pycryptosat",
                 detail=None if ok else f"{cnf['n_non_unique']} of {cnf['n_models']} projected models have more than one extension")
        if not ok:
            ck.violation("C03.unique", f"{_cls(d, 'non-unique')}:{r['name']}",
                         f"design {r['name']}: a trial sequence corresponds to more than one model of the compiled formula (auxiliary variables not determined)",
                         _replay(d, strategy="cnf", projection=cnf["non_unique"][:1]))
        if cnf.get("unused_aux"):
            ck.extra.setdefault("aux_ids_in_no_clause", {})[r["name"]] = cnf["unused_aux"]
        ck.sample(dict(design=r["name"], projected_models=cnf["n_models"], clauses=cnf.get("n_clauses"), vars=cnf.get("n_vars"), support=cnf.get("support")))
    ck.rule = "one case per design of D that compiles; per design every projected model (up to the limit) gets one uniqueness query; non-trivial = at least one model"
    ck.trust(*TRUST)
    ck.assume("auxiliary ids that occur in no clause are reported in coverage.aux_ids_in_no_clause, not counted as a second model "
              "(samplers are given the sampling set, so they do not double solutions)")
    return ck.finish()


# =========================================================================================== C07
def c07(tier):
    ck = Check("C07", tier, "exploration",
               "Relational contract, no oracle: for every design of D accepted by both, the exhausted IterateSATGen set equals the exhausted "
               "RandomGen set, compared by level names.")
    ds = SC.design_space(tier, seed())
    res = SC.run(ds, ["IterateSATGen", "RandomGen"], dict(n=3000 if tier == "quick" else 15000, space_limit=60_000 if tier == "quick" else 400_000), timeout=45 if tier == "quick" else 240)
    byname = {d["name"]: d for d in ds}
    lim = 3000 if tier == "quick" else 15000
    for r in res:
        d = byname[r["name"]]
        if _skip(ck, r, "C07.agree"):
            continue
        a, b = r.get("IterateSATGen"), r.get("RandomGen")
        if "build_error" in r or not isinstance(a, dict) or not isinstance(b, dict) or "exception" in a or "exception" in b:
            ck.count(r["name"], nontrivial=False)
            continue
        if a["n"] >= lim or b["n"] >= lim:
            ck.oblig(f"C07.agree({r['name']})", "E", "undecided", detail="not exhausted within the sample limit")
            continue
        ck.count(r["name"])
        sa, sb = set(map(_t, a["keys"])), set(map(_t, b["keys"]))
        ok = sa == sb
        ck.oblig(f"C07.agree({r['name']})", "E", "passed" if ok else "failed", detail=None if ok else f"only SAT: {len(sa - sb)}, only Random: {len(sb - sa)}")
        if not ok:
            ex = dict(next(iter(sa - sb))) if sa - sb else dict(next(iter(sb - sa)))
            ck.violation("C07.agree", f"{_cls(d, 'disagree')}:{r['name']}",
                         f"design {r['name']}: IterateSATGen and RandomGen disagree ({len(sa - sb)} only SAT, {len(sb - sa)} only Random), e.g. {ex}",
                         _replay(d, strategy="both", only_sat=len(sa - sb), only_random=len(sb - sa), example=ex))
        ck.sample(dict(design=r["name"], sat=len(sa), random=len(sb)))
    ck.rule = "one case per design of D on which both strategies returned without raising and were exhausted; distinct designs"
    ck.trust(*TRUST[:2])
    ck.assume("bounded design space D")
    return ck.finish()


# =========================================================================================== C08
DOCUMENTED_REFUSALS = ("SMGen",)


def c08(tier):
    ck = Check("C08", tier, "other",
               "Contract raises=∅ on synthesize_trials for every design the constructors accept: (P) safety obligations generated by pyvc.wp "
               "(subscript/division safety of map_block_trial_ranges, applies_to_trial and the combinatorics unranking functions) and "
               "(E) every design of D is run with IterateSATGen and RandomGen (thorough: CMSGen, UniGen); any exception other than a "
               "documented refusal is a violation, the traceback is in the replay file.")
    run_wp(ck, ["map_block_trial_ranges", "applies_to_trial", "extract_components", "compute_jth_combination", "compute_jth_inversion_sequence"],
           budget_ms(tier), prefix="C08.safety.")
    ds = SC.design_space(tier, seed(), random_n=80 if tier == "quick" else 600)
    strats = ["IterateSATGen", "RandomGen"] + (["CMSGen", "UniGen"] if tier == "thorough" else [])
    res = SC.run(ds, strats, dict(n=3, space_limit=10**7), timeout=45)
    byname = {d["name"]: d for d in ds}
    for r in res:
        d = byname[r["name"]]
        if _skip(ck, r, "C08.total"):
            continue
        if "build_error" in r:
            ck.count(r["name"], nontrivial=False)     # the constructor refused the design: outside the property
            continue
        ck.count(r["name"])
        for s in strats:
            v = r.get(s)
            if not isinstance(v, dict):
                continue
            ok = "exception" not in v
            ck.oblig(f"C08.total({r['name']},{s})", "E", "passed" if ok else "failed", detail=None if ok else str(v["exception"][:2]))
            if not ok:
                ck.violation("C08.total", f"{_cls(d, v['exception'][0])}:{r['name']}:{s}",
                             f"design {r['name']}: synthesize_trials with {s} raised {v['exception'][0]}: {v['exception'][1]}",
                             _replay(d, strategy=s, exception=v["exception"]),
                             tags=dict(kind=v["exception"][0], strategy=s, features=SC.feature_class(d)))
        if "T_error" in r:
            ck.violation("C08.total", f"{_cls(d, r['T_error'][0])}:{r['name']}:trials_per_sample", f"design {r['name']}: trials_per_sample raised {r['T_error'][:2]}",
                         _replay(d, strategy="trials_per_sample", exception=r["T_error"]))
        ck.sample(dict(design=r["name"], strategies=strats))
    ck.rule = "one case per design of D that the constructors accept (designs they reject are outside the property), each run with every listed strategy"
    ck.trust(*TRUST[:2])
    ck.assume("bounded design space D", "a worker that exceeds the wall-clock limit is reported undecided, not as an exception")
    return ck.finish()


# =========================================================================================== replay
def replay(payload):
    """re-run the judged facts for one design; True iff the recorded failure still shows"""
    d = payload["design"]
    s = payload.get("strategy")
    want = {"cnf": ["sets", "cnf"], "both": ["IterateSATGen", "RandomGen"], None: ["IterateSATGen"]}.get(s, ["sets", s])
    r = SC.run([d], want, dict(n=5000, model_limit=5000), jobs=1, timeout=300)[0]
    print({k: (v if not isinstance(v, (list, dict)) or len(str(v)) < 300 else str(v)[:300] + "...") for k, v in r.items() if k not in ("lo", "amb")})
    if s == "both":
        a, b = r.get("IterateSATGen", {}), r.get("RandomGen", {})
        return "exception" in a or "exception" in b or set(map(_t, a.get("keys", []))) != set(map(_t, b.get("keys", [])))
    v = r.get(s if s != "cnf" else "cnf", {})
    if "exception" in v:
        return True
    if v.get("n_invalid"):
        return True
    if "lo" in r:
        lo, up = set(map(_t, r["lo"])), set(map(_t, r["lo"])) | set(map(_t, r["amb"]))
        ks = set(map(_t, v.get("keys", [])))
        if lo - ks or ks - up:
            return True
    if v.get("n_non_unique"):
        return True
    return False
