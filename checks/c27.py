"""C27 — solver input and output text is faithful (DIMACS writers, the library's own parsers, blocking clause)."""
import itertools
import random
import time
from pathlib import Path

from pyvc.report import Check, run_check, seed, WORK
from spec import runner, designs, model


def independent_parse(text):
    """our own DIMACS reader: -> (declared vars, declared clauses, clause list, sampling set)"""
    V = C = None
    clauses, ind = [], []
    cur = []
    for line in text.splitlines():
        line = line.strip()
        if not line:
            continue
        if line.startswith("c ind"):
            ind += [int(x) for x in line.split()[2:] if x != "0"]
        elif line.startswith("c"):
            continue
        elif line.startswith("p"):
            parts = line.split()
            V, C = int(parts[2]), int(parts[3])
        else:
            # DIMACS proper: a clause is a run of literals ended by 0 and may continue on the next line (what a SAT solver reads)
            for x in line.split():
                if int(x) == 0:
                    clauses.append(cur)
                    cur = []
                else:
                    cur.append(int(x))
    if cur:
        clauses.append(cur)          # unterminated last clause: still reported, the counts will not match
    return V, C, clauses, ind


class RecordingSolver:
    last = None

    def __init__(self, *a, **k):
        self.clauses = []
        RecordingSolver.last = self

    def add_clause(self, c):
        self.clauses.append(list(c))

    def solve(self, *a):
        return False, None


def library_cms_parse(path):
    """the clause list that tools/cryptominisat._use_pycryptosat_library hands to the solver (its parser is not a separate
    function: the solver class is replaced by a recorder for the duration of the call)"""
    import sweetpea._internal.core.generate.tools.cryptominisat as cms
    real = cms.pycryptosat.Solver
    cms.pycryptosat.Solver = RecordingSolver
    try:
        cms._use_pycryptosat_library(path)
    finally:
        cms.pycryptosat.Solver = real
    return RecordingSolver.last.clauses


def multiset(cls):
    return sorted(tuple(c) for c in cls)


def random_cnf(rng, max_id=40):
    n = rng.randint(1, 12)
    cls = []
    for _ in range(n):
        k = rng.randint(1, 6)
        cls.append([rng.choice([-1, 1]) * v for v in rng.sample(range(1, max_id + 1), k)])
    # make ids contiguous 1..m as in library-generated formulas
    ids = sorted({abs(l) for c in cls for l in c})
    ren = {v: i + 1 for i, v in enumerate(ids)}
    return [[(1 if l > 0 else -1) * ren[abs(l)] for l in c] for c in cls]


def design_cnfs(tier):
    """CNFs the library really generates: compiled formulas of designs of D"""
    from sweetpea._internal.core.cnf import CNF
    from sweetpea._internal.core.generate.utility import combine_cnf_with_requests
    out = []
    ds = designs.curated()
    ds = ds if tier == "thorough" else ds[::3]
    for d in ds:
        try:
            block, _ = model.build(d)
            br = block.build_backend_request()
            if runner.quiet(block.show_errors):
                continue
            support = block.variables_per_sample()
            cnf = combine_cnf_with_requests(CNF(br.get_cnfs_as_json()), br.fresh - 1, support, br.get_requests_as_generation_requests())
            out.append((d["name"], cnf, support))
        except Exception:
            continue
    return out


def main(tier):
    from sweetpea._internal.core.cnf import CNF
    from sweetpea._internal.core.generate.utility import save_cnf
    from sweetpea._internal.core.generate.sample_non_uniform import update_file
    from sweetpea._internal.core.generate.sample_uniform import build_solution
    import sweetpea._internal.core.generate.tools.cryptominisat as cms
    from sweetpea._internal.core.generate.tools.unigen import parse_cnf_file
    ck = Check("C27", tier, "exploration",
               "Bounded contract evaluation of the text layer on the real functions: save_cnf / as_unigen_string output is read back by an "
               "independent DIMACS reader and by the library's two parsers (the pycryptosat front end, tools/unigen.parse_cnf_file); "
               "update_file must add exactly the negation of the solution; solver-output parsers are fed synthetic outputs; the blocking "
               "clause is evaluated under all assignments of the support (truth table). Inputs: compiled formulas of designs of D and "
               "seeded random clause sets with contiguous ids, support sizes crossing the 10-per-line chunking.")
    ck.under_contract("sweetpea._internal.core.cnf:CNF.__str__", "sweetpea._internal.core.cnf:CNF.as_dimacs_string", "sweetpea._internal.core.cnf:CNF.as_unigen_string",
                      "sweetpea._internal.core.generate.utility:save_cnf", "sweetpea._internal.core.generate.sample_non_uniform:update_file",
                      "sweetpea._internal.core.generate.sample_non_uniform:compute_solutions",
                      "sweetpea._internal.core.generate.tools.cryptominisat:_use_pycryptosat_library", "sweetpea._internal.core.generate.tools.cryptominisat:cryptominisat_solve",
                      "sweetpea._internal.core.generate.tools.unigen:parse_cnf_file", "sweetpea._internal.core.generate.sample_uniform:build_solution")
    rng = random.Random(seed())
    WORK.mkdir(exist_ok=True)
    path = WORK / f"c27-{seed()}.cnf"
    cases = [(f"random-{i}", CNF(random_cnf(rng)), None) for i in range(200 if tier == "quick" else 1500)]
    cases += design_cnfs(tier)
    # wide formulas: the blocking clause has one literal per support variable, i.e. thousands of characters on one line
    for width in ((1300, 3000) if tier == "quick" else (1300, 3000, 12000)):
        wide = [[v, -(v + 1)] for v in range(1, width)] + [[width, -1, 2]]          # ids 1..width all used (the header counts distinct ids)
        cases.append((f"wide-{width}", CNF(wide), width))
    supports = [0, 1, 9, 10, 11, 25]
    fails = {}

    def fail(ob, key, what, **kw):
        if ob not in fails:
            fails[ob] = True
            ck.violation(ob, key, what, dict(**kw))

    for name, cnf, sup in cases:
        clauses = [[int(v) for v in cl] for cl in cnf]
        maxid = max([abs(l) for c in clauses for l in c] + [0])
        for support in ([sup] if sup is not None else [rng.choice(supports), rng.choice(supports)]):
            save_cnf(path, cnf, None, support)
            text = path.read_text()
            V, C, got, ind = independent_parse(text)
            ck.count((name, support))
            if C != len(clauses) or C != len(got):
                fail("C27.header.counts", f"{name}", f"{name}: header declares {C} clauses, file has {len(got)}, formula has {len(clauses)}", text=text[:400])
            if V < maxid:
                fail("C27.header.counts", f"{name}:vars", f"{name}: header declares {V} variables but the formula uses variable {maxid}", text=text[:200], clauses=clauses[:10])
            if multiset(got) != multiset(clauses):
                fail("C27.dimacs.roundtrip", f"{name}:text", f"{name}: clauses in the DIMACS text differ from the formula", text=text[:400])
            if ind != list(range(1, support + 1)):
                fail("C27.dimacs.roundtrip", f"{name}:ind", f"{name}: sampling-set lines list {ind[:12]}..., expected 1..{support}", text=text[:400])
            if any(len(l.split()) > 13 for l in text.splitlines() if l.startswith("c ind")):
                fail("C27.dimacs.roundtrip", f"{name}:chunk", "more than ten variables on a 'c ind' line", text=text[:400])
            lib1 = library_cms_parse(path)
            if multiset(lib1) != multiset(clauses):
                fail("C27.dimacs.roundtrip", f"{name}:cms-parser", f"{name}: the pycryptosat front end hands the solver different clauses than the formula has", got=lib1[:8], want=clauses[:8])
            lib2, ind2, nv2 = parse_cnf_file(path)
            if multiset(lib2) != multiset(clauses) or ind2 != list(range(1, support + 1)) or nv2 != V:
                fail("C27.dimacs.roundtrip", f"{name}:unigen-parser", f"{name}: parse_cnf_file returns clauses/sampling set/var count that differ from the file", got=[lib2[:6], ind2[:12], nv2])
            # blocking clause (update_file)
            if support and support <= maxid:
                sol = [v if rng.random() < 0.5 else -v for v in range(1, support + 1)]
                update_file(path, list(sol))
                V2, C2, got2, ind3 = independent_parse(path.read_text())
                added = multiset(got2)
                base = multiset(clauses)
                for c in base:
                    if c in added:
                        added.remove(c)
                if C2 != C + 1 or V2 != V or ind3 != ind or added != [tuple(-l for l in sol)]:
                    fail("C27.update_file.blocking", f"{name}:update", f"{name}: update_file did not add exactly the negated solution (header {C}->{C2}, vars {V}->{V2}, extra clauses {added[:3]})",
                         solution=sol, text=path.read_text()[:400])
                if multiset(library_cms_parse(path)) != multiset(got2):
                    fail("C27.update_file.blocking", f"{name}:reparse", f"{name}: the updated file is not parsed back by the pycryptosat front end to the clauses it contains (support {support})", solution=sol[:20])
                lib3, ind4, nv4 = parse_cnf_file(path)
                if multiset(lib3) != multiset(got2) or ind4 != ind:
                    fail("C27.update_file.blocking", f"{name}:reparse-unigen", f"{name}: parse_cnf_file does not recover the clauses / sampling set of the updated file (support {support})", solution=sol[:20])
                # a second iteration on the same file: again exactly one more clause
                sol2 = [-l for l in sol[:-1]] + [sol[-1]]
                update_file(path, list(sol2))
                V3, C3, got3, _ = independent_parse(path.read_text())
                if C3 != C + 2 or len(got3) != C + 2 or V3 != V or multiset(library_cms_parse(path)) != multiset(got3):
                    fail("C27.update_file.blocking", f"{name}:update2", f"{name}: second update_file: header {C2}->{C3}, {len(got3)} clauses in the file, variables {V}->{V3}", solution=sol2[:20])
    path.unlink(missing_ok=True)
    for ob in ("C27.header.counts", "C27.dimacs.roundtrip", "C27.update_file.blocking"):
        ck.oblig(ob + "(all cases)", "E", "failed" if ob in fails else "passed", detail=f"{len(cases)} formulas")
    # ---- blocking clause excludes exactly the previous projected assignment (truth table over the support)
    t = time.time()
    okb = True
    for support in range(1, 6):
        for bits in itertools.product([False, True], repeat=support):
            sol = [v if b else -v for v, b in zip(range(1, support + 1), bits)]
            save_cnf(path, CNF([[1, -1]]), None, support)
            update_file(path, list(sol) )
            _, _, got, _ = independent_parse(path.read_text())
            block = [c for c in got if c != [1, -1]]
            for asg in itertools.product([False, True], repeat=support):
                sat = all(any(asg[abs(l) - 1] == (l > 0) for l in c) for c in block)
                if sat != (tuple(asg) != tuple(bits)):
                    okb = False
                    fail("C27.blocking.exact", f"block:{sol}", f"blocking clause for {sol} is {'satisfied' if sat else 'violated'} by {asg}", solution=sol)
            ck.count(("block", tuple(sol)))
    path.unlink(missing_ok=True)
    ck.oblig("C27.blocking.exact(all solutions, support<=5)", "S", "proved" if okb else "refuted", "truth-table", time.time() - t)
    # ---- solver output parsers
    okp = True
    real_call = cms.call_cryptominisat
    try:
        for n in (1, 7, 40, 200):
            asg = [v if rng.random() < 0.5 else -v for v in range(1, n + 1)]
            for width in (5, 1000):
                lines = ["s SATISFIABLE"]
                toks = [str(x) for x in asg] + ["0"]
                for i in range(0, len(toks), width):
                    lines.append("v " + " ".join(toks[i:i + width]))
                out_text = "\n".join(lines) + "\n"
                cms.call_cryptominisat = lambda f, d=False, _t=out_text: (_t, cms.CryptoMiniSATReturnCode.Satisfiable)
                got = cms.cryptominisat_solve(Path("unused"), False)
                ck.count(("solve-parse", n, width))
                if got is None or [x for x in got if x != 0] != asg:
                    okp = False
                    fail("C27.solver_output.parse", f"cms:{n}:{width}", f"cryptominisat_solve parsed {str(got)[:80]} from an output encoding {str(asg)[:80]}", output=out_text[:300])
        cms.call_cryptominisat = lambda f, d=False: ("s UNSATISFIABLE\n", cms.CryptoMiniSATReturnCode.Unsatisfiable)
        if cms.cryptominisat_solve(Path("unused"), False) != []:
            okp = False
            fail("C27.solver_output.parse", "cms:unsat", "unsatisfiable output is not reported as []")
    finally:
        cms.call_cryptominisat = real_call
    for n in (1, 12, 30):
        asg = [v if rng.random() < 0.5 else -v for v in range(1, n + 1)]
        for freq in (1, 7):
            s = build_solution("v " + " ".join(map(str, asg)) + f" 0:{freq}")
            ck.count(("build_solution", n, freq))
            if list(s.assignment) != asg or s.frequency != freq:
                okp = False
                fail("C27.solver_output.parse", f"build_solution:{n}", f"build_solution returned {s} for assignment {asg} frequency {freq}")
    ck.oblig("C27.solver_output.parse(all cases)", "E", "passed" if okp else "failed")
    ck.rule = "one case per (formula, support size) / blocked solution / synthetic solver output; non-trivial = distinct case; formulas: compiled designs of D and random clause sets with contiguous ids"
    ck.sample(dict(formula=cases[0][0], clauses=[[int(v) for v in cl] for cl in cases[0][1]][:3], supports=supports))
    ck.trust("our independent DIMACS reader in this file", "external solvers are not run here (only the library's text layer)")
    ck.assume("formulas use contiguous variable ids 1..max, as combine_cnf_with_requests output does (CNF.__init__ counts distinct ids for the header)",
              "clauses are non-empty (the library never emits an empty clause; the pycryptosat front end would drop one)")
    return ck.finish()


if __name__ == "__main__":
    run_check(main)
