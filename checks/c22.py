"""C22 — continuous factors respect their constraints, inputs and windows (block.py, primitive.py, main.py)."""
import itertools
import math
import random
import types

from pyvc.report import Check, run_check, seed
from pyvc.smt import budget_ms
from checks.wp_common import run_wp
from spec import runner


class Counter:
    """deterministic 'distribution': the k-th draw returns k (so every received argument is observable)"""
    def __init__(self):
        self.k = 0

    def __call__(self):
        self.k += 1
        return float(self.k)


def isnan(x):
    return isinstance(x, float) and x != x


def window_spec(i, width, stride, start, series_list):
    """documentation of ContinuousFactorWindow: before `start` or when skipped by the stride every entry is NaN; otherwise key -k holds the value
    of trial i-k, NaN where i-k < 0; one dict for a single factor, a list of dicts for several"""
    outs = []
    for series in series_list:
        dct = {}
        for k in range(width):
            if i < start or (stride > 1 and (i - start) % stride != 0) or i - k < 0:
                dct[-k] = float("nan")
            else:
                dct[-k] = series[i - k]
        outs.append(dct)
    return outs[0] if len(outs) < 2 else outs


def same(a, b):
    if isinstance(a, dict) and isinstance(b, dict):
        return a.keys() == b.keys() and all(same(a[k], b[k]) for k in a)
    if isinstance(a, list) and isinstance(b, list):
        return len(a) == len(b) and all(same(x, y) for x, y in zip(a, b))
    if isnan(a) and isnan(b):
        return True
    return a == b


def e2e_case(case_seed):
    import sweetpea as sp
    from sweetpea._internal.constraint import ContinuousConstraint
    from sweetpea._internal.primitive import ContinuousFactorWindow
    rng = random.Random(case_seed)
    width, stride = rng.choice([1, 2, 3]), rng.choice([1, 2])
    start = rng.choice([None, 0, 1, 2])
    d = sp.Factor("d", ["x", "y"])
    cf = sp.Factor("c", ["r", "g"])
    log = []
    base = sp.ContinuousFactor("t", distribution=sp.CustomDistribution(Counter()))
    win = ContinuousFactorWindow([base], width, stride, start)

    def rec(level, val, w, _log=log):
        _log.append((level, val, w))
        return float(len(_log)) * 100
    dep = sp.ContinuousFactor("u", distribution=sp.CustomDistribution(rec, [d, base, win]))
    reject = rng.random() < 0.5
    cons = [ContinuousConstraint([base], lambda v: int(v) % 7 != 0)] if reject else []
    # a cumulative factor: the running total of t within ONE sequence (resampling after a rejected draw must start from zero again)
    cumul = rng.random() < 0.6
    acc = sp.ContinuousFactor("acc", distribution=sp.CustomDistribution(lambda v: v, [base], cumulative=True))
    minT = rng.choice([2, 4, 5])
    params = dict(width=width, stride=stride, start=start, constraint=reject, minimum_trials=minT, cumulative=cumul)
    key = f"e2e:w{width}:s{stride}:start{start}:{'constraint' if reject else 'free'}{':cumulative' if cumul else ''}"
    blk = sp.CrossBlock([cf, d, base, dep] + ([acc] if cumul else []), [cf], cons + [sp.MinimumTrials(minT)])
    try:
        res = runner.synth(blk, 2, rng.choice(["IterateSATGen", "RandomGen"]))
    except Exception as e:
        return dict(bad=f"synthesize_trials raised {e!r} for a block with continuous factors", key=key, params=params)
    T = blk.trials_per_sample()
    bad = None
    for e in res:
        if sorted(e) != sorted(["c", "d", "t", "u"] + (["acc"] if cumul else [])) or any(len(v) != T for v in e.values()):
            bad = f"columns/lengths {[(k, len(v)) for k, v in e.items()]} for T={T}"
            break
        if reject and any(int(v) % 7 == 0 for v in e["t"]):
            bad = f"ContinuousConstraint violated by returned values {e['t']}"
            break
        if cumul:
            run, tot = [], 0.0
            for v in e["t"]:
                tot += v
                run.append(tot)
            if any(abs(a - b) > 1e-9 for a, b in zip(e["acc"], run)):
                bad = f"cumulative factor acc = {e['acc']} is not the running total {run} of this sequence's t = {e['t']}"
                break
    if not bad and res:
        e = res[-1]
        tail = log[-T:]          # inputs recorded during the accepted attempt of the last experiment
        stv = width - 1 if start is None else start
        for i, (lvl, val, w) in enumerate(tail):
            want_w = window_spec(i, width, stride, stv, [e["t"]])
            if lvl != e["d"][i] or val != e["t"][i] or not same(w, want_w):
                bad = f"trial {i}: the distribution of u received (level {lvl}, value {val}, window {w}); the sequence has d={e['d'][i]}, t={e['t'][i]}, window {want_w}"
                break
        cnt = {l: e["c"].count(l) for l in ("r", "g")}
        w_ = -(-T // 2)
        if any(v > w_ for v in cnt.values()) or (T % 2 == 0 and any(v != w_ for v in cnt.values())):
            bad = f"discrete crossing violated: counts {cnt} in {T} trials"
    return dict(bad=bad, key=key, params=params)


def main(tier):
    import sweetpea as sp
    from sweetpea._internal.constraint import ContinuousConstraint
    from sweetpea._internal.primitive import ContinuousFactorWindow, ContinuousFactor
    ck = Check("C22", tier, "other",
               "Deductive part (pyvc.wp on the real source, all inputs): Block._check_constraints returns True iff every ContinuousConstraint's predicate holds at every "
               "trial, and the predicate is called on exactly that trial's values of the constraint's factors in the constraint's order (precondition of the abstract "
               "predicate, so the callpre obligations carry it); ContinuousFactorWindow.get_window_val / _return_nan return, for every trial index, width, stride, start "
               "and number of factors, the documented window: key -k holds the value at trial idx-k, NaN before the first trial, an all-NaN window before `start` and at "
               "stride-skipped trials, exactly the keys 0..-(width-1), one dict for a single factor and a list of dicts otherwise (dicts, attribute reads, isinstance and "
               "float('nan') are modelled as arrays / uninterpreted functions / an opaque constant). Bounded part: "
               "Bounded contract evaluation with recording distributions (deterministic counters, so every argument a distribution receives is observable): "
               "get_window_val against the documented window (all widths <= 3, strides <= 2, starts 0..3, one or two factors, every trial index); "
               "_check_constraints returns True iff every ContinuousConstraint predicate holds at every trial (all truth patterns over <= 4 trials x 2 constraints); "
               "end to end: one value per trial per continuous factor, a dependent discrete factor contributes that trial's level, a continuous one that trial's "
               "value, a window the documented dict; every constraint holds in what synthesize_trials returns; the discrete part stays valid. "
               "The resample loop of sample_continuous and the assembly in _sample_continuous (isinstance dispatch over user objects, distributions) stay bounded.")
    run_wp(ck, ["check_constraints", "return_nan", "get_window_val"], budget_ms(tier), prefix="C22.wp.")
    ck.under_contract("sweetpea._internal.block:Block.sample_continuous", "sweetpea._internal.block:Block._sample_continuous", "sweetpea._internal.block:Block._check_constraints",
                      "sweetpea._internal.primitive:ContinuousFactorWindow.get_window_val", "sweetpea._internal.main:synthesize_trials")
    rng = random.Random(seed())
    # ---- get_window_val
    okw = True
    t1 = sp.ContinuousFactor("t1", distribution=sp.UniformDistribution(0, 1))
    t2 = sp.ContinuousFactor("t2", distribution=sp.UniformDistribution(0, 1))
    for width, stride, start, nf in itertools.product((1, 2, 3), (1, 2), (None, 0, 1, 2, 3), (1, 2)):
        w = ContinuousFactorWindow([t1, t2][:nf], width, stride, start)
        st = width - 1 if start is None else start
        series = {"t1": [10.0 + i for i in range(7)], "t2": [20.0 + i for i in range(7)]}
        for i in range(7):
            got = w.get_window_val(i, series)
            want = window_spec(i, width, stride, st, [series["t1"], series["t2"]][:nf])
            ck.count(("window", width, stride, start, nf, i))
            if not same(got, want):
                okw = False
                ck.violation("C22.window_val.spec", f"window:w{width}:s{stride}:start{start}:n{nf}", f"get_window_val({i}) with width {width}, stride {stride}, start {start}, {nf} factor(s) returns {got}, documented {want}",
                             dict(function="sweetpea._internal.primitive:ContinuousFactorWindow.get_window_val", width=width, stride=stride, start=start, index=i, got=str(got), want=str(want)))
                break
    ck.oblig("C22.window_val.spec(all shapes)", "E", "passed" if okw else "failed")
    # ---- _check_constraints
    okc = True
    a = sp.ContinuousFactor("a", distribution=sp.UniformDistribution(0, 1))
    b = sp.ContinuousFactor("b", distribution=sp.UniformDistribution(0, 1))
    c = sp.Factor("c", ["r", "g"])
    for T in (1, 2, 4):
        for pattern in itertools.product([False, True], repeat=2 * T):
            tab1 = dict(zip(range(T), pattern[:T]))
            tab2 = dict(zip(range(T), pattern[T:]))
            cons = [ContinuousConstraint([a], lambda x: tab1[int(x)]), ContinuousConstraint([a, b], lambda x, y: tab2[int(y)])]
            blk = sp.CrossBlock([c, a, b], [c], cons + [sp.MinimumTrials(T)])
            samples = {"a": [float(i) for i in range(T)], "b": [float(i) for i in range(T)]}
            got = blk._check_constraints(samples)
            ck.count(("constraints", T, pattern))
            if got != all(pattern):
                okc = False
                ck.violation("C22.check_constraints.forall", f"constraints:T{T}", f"_check_constraints returned {got} for predicate values {pattern}",
                             dict(function="sweetpea._internal.block:Block._check_constraints", T=T, pattern=list(pattern)))
                break
        if not okc:
            break
    blk0 = sp.CrossBlock([c, a], [c], [])
    if blk0._check_constraints({"a": [0.0, 1.0]}) is not True:
        okc = False
        ck.violation("C22.check_constraints.forall", "constraints:none", "_check_constraints is not True without constraints", {})
    ck.oblig("C22.check_constraints.forall(all patterns)", "E", "passed" if okc else "failed")
    # ---- end to end with recording distributions (in killable workers: the resample loop has no termination guarantee)
    n_e2e = 40 if tier == "quick" else 400
    cases = [(seed() * 100003 + i) for i in range(n_e2e)]
    res = runner.pmap(e2e_case, cases, jobs=12, timeout=40)
    oke = True
    for cs, (st, r) in zip(cases, res):
        if st != "ok":
            ck.oblig(f"C22.assembly(case {cs})", "E", "undecided", detail=f"worker {st}: {str(r)[:200]}")
            continue
        ck.count(("e2e", cs))
        if r.get("bad"):
            oke = False
            ck.violation("C22.assembly", r["key"], f"continuous assembly: {r['bad']}", r["params"])
    ck.oblig("C22.assembly(all cases)", "E", "passed" if oke else "failed", detail=f"{n_e2e} seeded designs with recording distributions")
    ck.sample(dict(window=dict(width=2, stride=2, start=None), trial=3, expected="{0: t[3], -1: t[2]} or all-NaN when skipped"))
    ck.rule = "window shapes: 3 widths x 2 strides x 5 starts x {1,2} factors x 7 trial indices (exhaustive); constraint truth patterns: all over T in {1,2,4}; seeded end-to-end designs"
    ck.trust("CPython", "recording distributions in this file")
    ck.assume("built-in distributions' statistical shape is not part of C22", "termination of the resample-until-constraints-hold loop is not claimed")
    return ck.finish()


if __name__ == "__main__":
    run_check(main)
