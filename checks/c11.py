"""C11 — formula-to-CNF conversions preserve meaning (logic.py)."""
import itertools
import random
import time

from pyvc.report import Check, run_check, seed
from pyvc.smt import budget_ms
from checks.wp_common import run_wp

LITS = [1, 2, 3, -1, -2]
NV = 4


def formulas(size, L):
    """all formulas with exactly `size` connectives over the literals (plus degenerate n-ary forms at size 1)"""
    from sweetpea._internal.logic import And, Or, If, Iff, Not
    if size == 0:
        yield from LITS
        return
    for x in formulas(size - 1, L):
        yield Not(x)
    for a in range(size):
        b = size - 1 - a
        for x in formulas(a, L):
            for y in formulas(b, L):
                yield And([x, y])
                yield Or([x, y])
                yield If(x, y)
                yield Iff(x, y)
    if size == 1:
        yield And([])
        yield Or([])
        yield And([1])
        yield Or([-2])
        yield And([1, 2, 3])
        yield Or([1, -2, 3])
        yield And([2, 2])
        yield Or([3, -3])


def random_formula(rng, size):
    from sweetpea._internal.logic import And, Or, If, Iff, Not
    if size == 0:
        return rng.choice(LITS)
    k = rng.choice(["not", "and", "or", "if", "iff", "andn", "orn"])
    if k == "not":
        return Not(random_formula(rng, size - 1))
    if k in ("andn", "orn"):
        n = rng.randint(0, 3)
        parts = [random_formula(rng, max(0, (size - 1) // max(n, 1))) for _ in range(n)]
        return (And if k == "andn" else Or)(parts)
    a = rng.randint(0, size - 1)
    x, y = random_formula(rng, a), random_formula(rng, size - 1 - a)
    return {"and": lambda: And([x, y]), "or": lambda: Or([x, y]), "if": lambda: If(x, y), "iff": lambda: Iff(x, y)}[k]()


def ev(f, val):
    from sweetpea._internal.logic import And, Or, If, Iff, Not
    if isinstance(f, int):
        return val[abs(f)] if f > 0 else not val[abs(f)]
    if isinstance(f, And):
        return all(ev(x, val) for x in f.input_list)
    if isinstance(f, Or):
        return any(ev(x, val) for x in f.input_list)
    if isinstance(f, Not):
        return not ev(f.c, val)
    if isinstance(f, If):
        return (not ev(f.p, val)) or ev(f.q, val)
    if isinstance(f, Iff):
        return ev(f.p, val) == ev(f.q, val)
    raise ValueError(f)


def vars_of(f, acc):
    from sweetpea._internal.logic import And, Or, If, Iff, Not
    if isinstance(f, int):
        acc.add(abs(f))
    elif isinstance(f, (And, Or)):
        for x in f.input_list:
            vars_of(x, acc)
    elif isinstance(f, Not):
        vars_of(f.c, acc)
    else:
        vars_of(f.p, acc)
        vars_of(f.q, acc)
    return acc


def rename(f, ren):
    from sweetpea._internal.logic import And, Or, If, Iff, Not
    if isinstance(f, int):
        return ren[abs(f)] * (1 if f > 0 else -1)
    if isinstance(f, (And, Or)):
        return type(f)([rename(x, ren) for x in f.input_list])
    if isinstance(f, Not):
        return Not(rename(f.c, ren))
    return type(f)(rename(f.p, ren), rename(f.q, ren))


def check_one(name, fn, f, nv, orig):
    """-> None or a failure description"""
    from sweetpea._internal.logic import And, Or, Not, cnf_to_json
    try:
        g, nv2 = fn(f, nv)
    except Exception as e:
        return f"raised {type(e).__name__}: {e}"
    if not isinstance(g, And):
        return f"result is not an And: {g}"
    gv = vars_of(g, set())
    new = sorted(v for v in gv if v not in orig)
    if any(v < nv or v >= nv2 for v in new):
        return f"new variables {new} outside the reported fresh range [{nv}, {nv2})"
    if name == "naive" and (new or nv2 != nv):
        return f"naive conversion introduced variables {new} / changed next_variable to {nv2}"
    if name == "tseitin":
        try:
            js = cnf_to_json([g])
        except Exception as e:
            return f"cnf_to_json rejects the Tseitin output: {e}"
        want = []
        for o in g.input_list:
            want.append([o] if isinstance(o, int) else [(x if isinstance(x, int) else -x.c) for x in o.input_list])
        if js != want:
            return f"cnf_to_json output {js[:4]} differs from the clauses {want[:4]}"
    if len(new) > 14:
        return None
    for bits in itertools.product([False, True], repeat=len(orig)):
        val = dict(zip(sorted(orig), bits))
        exts = 0
        for nb in itertools.product([False, True], repeat=len(new)):
            v2 = dict(val)
            v2.update(zip(new, nb))
            if ev(g, v2):
                exts += 1
                if exts > 1 and name != "switching":
                    break
        want = ev(f, val)
        if name == "tseitin":
            ok = exts == (1 if want else 0)
        else:
            ok = (exts >= 1) == want
        if not ok:
            return f"under {val}: formula is {want}, converted formula has {exts} satisfying extension(s)"
    return None


def node_contracts(ck, Lg, tier):
    from sweetpea._internal.logic import And, Or, If, Iff, Not
    rep_fn = Lg.__dict__["__tseitin_rep"]
    dom = [1, 2, 3, -1, -2, -3, 9] if tier == "thorough" else [1, 2, 3, -1, -2]
    nodes = []
    for m in range(0, 4 if tier == "thorough" else 3 + 1):
        for ops in itertools.product(dom, repeat=m):
            if m <= 2 or len(set(map(abs, ops))) >= 2 or tier == "thorough":
                nodes.append(("And", ops))
                nodes.append(("Or", ops))
    for p_, q_ in itertools.product(dom, repeat=2):
        nodes.append(("If", (p_, q_)))
        nodes.append(("Iff", (p_, q_)))
    for a in dom:
        nodes.append(("Not", (a,)))
    mk = {"And": lambda o: And(list(o)), "Or": lambda o: Or(list(o)), "If": lambda o: If(*o), "Iff": lambda o: Iff(*o), "Not": lambda o: Not(o[0])}
    sem = {"And": lambda v: all(v), "Or": lambda v: any(v), "If": lambda v: (not v[0]) or v[1], "Iff": lambda v: v[0] == v[1], "Not": lambda v: not v[0]}
    NEXT = 20
    by_key = {}
    t0 = time.time()
    bad1 = bad2 = bad3 = None
    for (op, ops) in nodes:
        cache = Lg._Cache(NEXT)
        clauses = []
        try:
            rep = rep_fn(mk[op](ops), clauses, cache)
            keys = list(cache.cache.keys())
            n_added = len(clauses)
            rep2 = rep_fn(mk[op](ops), clauses, cache)
        except Exception as e:
            bad1 = bad1 or (op, ops, f"raised {type(e).__name__}: {e}")
            continue
        ck.count(("node", op, ops))
        # N1
        vs = sorted({abs(x) for x in ops})
        ok = rep == NEXT and cache.get_next_variable() == NEXT + 1 and len(keys) == 1
        if ok:
            for bits in itertools.product([False, True], repeat=len(vs) + 1):
                val = dict(zip(vs + [NEXT], bits))
                lhs = all(ev(c, val) for c in clauses)
                rhs = val[NEXT] == sem[op]([ev(x, val) for x in ops])
                if lhs != rhs:
                    ok = False
                    break
        if not ok and bad1 is None:
            bad1 = (op, ops, f"cache miss: representative {rep}, next_variable {cache.get_next_variable()}, keys {keys}, clauses {clauses} are not equivalent to {NEXT} <-> {op}{ops}")
        # N2
        if (rep2 != rep or len(clauses) != n_added or cache.get_next_variable() != NEXT + 1) and bad2 is None:
            bad2 = (op, ops, f"cache hit: returned {rep2} (first {rep}), clauses grew from {n_added} to {len(clauses)}")
        # N3
        if len(keys) == 1:
            by_key.setdefault(keys[0], []).append((op, ops))
    for key, group in by_key.items():
        (op0, ops0) = group[0]
        for (op1, ops1) in group[1:]:
            vs = sorted({abs(x) for x in ops0 + ops1})
            for bits in itertools.product([False, True], repeat=len(vs)):
                val = dict(zip(vs, bits))
                if sem[op0]([ev(x, val) for x in ops0]) != sem[op1]([ev(x, val) for x in ops1]):
                    bad3 = bad3 or (key, (op0, ops0), (op1, ops1), val)
                    break
    dt = time.time() - t0
    for oid, bad, what in (("C11.tseitin.node.miss_defines", bad1, "on a cache miss the appended clauses are equivalent to rep <-> op(children); rep == old next_variable"),
                           ("C11.tseitin.node.hit_silent", bad2, "on a cache hit nothing is appended and the cached representative is returned")):
        ck.oblig(oid, "S", "proved" if bad is None else "refuted", "truth-table", dt, f"{len(nodes)} nodes over operands {dom}: {what}")
        if bad is not None:
            ck.violation(oid, f"{oid}:{bad[0]}", f"__tseitin_rep on {bad[0]}{bad[1]}: {bad[2]}",
                         dict(function="sweetpea._internal.logic:__tseitin_rep", kind="node", op=bad[0], operands=list(bad[1]), failure=bad[2]))
    ck.oblig("C11.tseitin.node.key_sound", "S", "proved" if bad3 is None else "refuted", "truth-table", dt,
             f"{len(nodes)} nodes, {len(by_key)} distinct cache keys: nodes sharing a key are logically equivalent")
    if bad3 is not None:
        key, n0, n1, val = bad3
        ck.violation("C11.tseitin.node.key_sound", f"key:{n0[0]}:{n1[0]}",
                     f"__tseitin_rep uses the same cache key {key!r} for {n0[0]}{n0[1]} and {n1[0]}{n1[1]}, which differ under {val}: a cache hit reuses a representative defined for a different formula",
                     dict(function="sweetpea._internal.logic:__tseitin_rep", kind="key", node_a=[n0[0], list(n0[1])], node_b=[n1[0], list(n1[1])], cache_key=key, assignment={str(k): v for k, v in val.items()}))


def main(tier):
    import sweetpea._internal.logic as Lg
    ck = Check("C11", tier, "other",
               "Contracts on to_cnf_tseitin / to_cnf_naive / to_cnf_switching / cnf_to_json, decided for every formula of a bounded space and ALL "
               "assignments (truth table, complete per formula): Tseitin: models restricted to the original variables are exactly the formula's "
               "models, every new variable uniquely determined and inside the reported fresh range, output accepted verbatim by cnf_to_json; "
               "naive: equivalent, no new variables; switching: same models after projecting the switch variables. The formula space is "
               "exactly what the property names (bounded size, bounded variable set); ids are also renamed to non-contiguous / reordered ids "
               "because the naive and switching rewriters sort by id.")
    ck.under_contract(*["sweetpea._internal.logic:" + n for n in ("to_cnf_tseitin", "to_cnf_naive", "to_cnf_switching", "cnf_to_json", "_Cache.get",
                                                                   "__tseitin_rep", "__eliminate_iff", "__apply_demorgan", "__distribute_ors_naive",
                                                                   "__distribute_ors_switching", "__order_clauses")])
    fns = [("tseitin", Lg.to_cnf_tseitin), ("naive", Lg.to_cnf_naive), ("switching", Lg.to_cnf_switching)]
    rng = random.Random(seed())
    space = []
    for size in range(0, 3):
        space += [(f, NV, {1, 2, 3}) for f in formulas(size, LITS)]
    n_sys = len(space)
    extra = 400 if tier == "quick" else 6000
    for _ in range(extra):
        f = random_formula(rng, rng.randint(3, 6))
        space.append((f, NV, {1, 2, 3}))
    # renamings: reversed order and gaps
    for ren in ({1: 7, 2: 5, 3: 2}, {1: 10, 2: 20, 3: 30}):
        for (f, _, _) in rng.sample(space[:n_sys], 300 if tier == "quick" else 2000):
            space.append((rename(f, ren), max(ren.values()) + 1, set(ren.values())))
    if tier == "thorough":
        space += [(f, NV, {1, 2, 3}) for f in itertools.islice(formulas(3, LITS), 0, 60000, 7)]
    first = {}
    counts = {n: 0 for n, _ in fns}
    t0 = time.time()
    for (f, nv, orig) in space:
        for name, fn in fns:
            r = check_one(name, fn, f, nv, orig)
            counts[name] += 1
            if r is not None:
                kind = "raises" if r.startswith("raised") else "semantic"
                first.setdefault((name, kind, r.split(":")[0][:40]), (f, nv, r))
        ck.count(repr(f))
    for name, _ in fns:
        bad = {k: v for k, v in first.items() if k[0] == name}
        ck.oblig(f"C11.{name}.{'equisat' if name != 'naive' else 'equiv'}(all formulas)", "S", "proved" if not bad else "refuted", "truth-table", time.time() - t0,
                 f"{counts[name]} formulas x all assignments of the original variables")
        for (nm, kind, sig), (f, nv, r) in bad.items():
            ck.violation(f"C11.{name}.{kind}", f"{name}:{kind}:{sig}", f"to_cnf_{name}({f}, {nv}): {r}", dict(function=f"sweetpea._internal.logic:to_cnf_{name}", formula=repr(f), next_variable=nv, failure=r))
    # ---- node-level contracts of the Tseitin recursion (the induction step of the structural argument) ------------------------
    # For a node whose children are already representatives (ints):  N1 on a cache miss the appended clauses are equivalent to
    # rep <-> op(children), the representative is the old next_variable and next_variable advances by one;  N2 on a hit nothing
    # is appended and the cached representative is returned;  N3 two nodes that share a cache key have the same meaning (otherwise
    # a hit would reuse a representative that was defined for a different function of the operands).
    # _Cache.get, proved for all inputs (pyvc.wp): representatives are taken from next_variable upward, one per key, never reused for another key
    run_wp(ck, ["cache_get"], budget_ms(tier), prefix="C11.wp.")
    node_contracts(ck, Lg, tier)
    # sibling family: two binary nodes over the same literals under one And/Or (cache interaction between siblings)
    fam = 0
    bad_f = None
    from sweetpea._internal.logic import And as _A, Or as _O, If as _I, Iff as _F
    lits2 = [1, 2, -1, -2, 3] if tier == "thorough" else [1, 2, -1]
    for top in (_A, _O):
        for X in (_I, _F, lambda p, q: _A([p, q]), lambda p, q: _O([p, q])):
            for Y in (_I, _F, lambda p, q: _A([p, q]), lambda p, q: _O([p, q])):
                for a, b_, c_, d in itertools.product(lits2, repeat=4):
                    f = top([X(a, b_), Y(c_, d)])
                    fam += 1
                    r = check_one("tseitin", Lg.to_cnf_tseitin, f, NV, {1, 2, 3})
                    if r is not None and bad_f is None:
                        bad_f = (f, r)
    ck.count(("sibling-family", fam))
    ck.oblig("C11.tseitin.equisat(sibling pairs)", "S", "proved" if bad_f is None else "refuted", "truth-table", 0.0,
             f"{fam} formulas top([X(a,b), Y(c,d)]), X,Y in If/Iff/And/Or, literals {lits2}, all assignments")
    if bad_f is not None:
        ck.violation("C11.tseitin.semantic", "tseitin:siblings", f"to_cnf_tseitin({bad_f[0]}, {NV}): {bad_f[1]}",
                     dict(function="sweetpea._internal.logic:to_cnf_tseitin", formula=repr(bad_f[0]), next_variable=NV, failure=bad_f[1]))
    # _Cache.get: ids handed out are exactly [nv, nv') and stable per key
    c = Lg._Cache(5)
    keys = ["a", "b", "a", "c", "b"]
    got = [c.get(k) for k in keys]
    okc = got == [5, 6, 5, 7, 6] and c.get_next_variable() == 8
    ck.oblig("C11.cache.fresh", "E", "passed" if okc else "failed")
    if not okc:
        ck.violation("C11.cache.fresh", "cache", f"_Cache.get handed out {got} for keys {keys}", dict(keys=keys, got=got))
    # cnf_to_json rejects anything that is not an And of Or-of-literals / literals
    from sweetpea._internal.logic import And, Or, Not, If
    okj = True
    for badf in ([And([If(1, 2)])], [And([Or([If(1, 2)])])], [And([Or([Or([1])])])]):
        try:
            Lg.cnf_to_json(badf)
            okj = False
        except ValueError:
            pass
    if Lg.cnf_to_json([And([Or([1, Not(2)]), 3, -4]), And([])]) != [[1, -2], [3], [-4]]:
        okj = False
    ck.oblig("C11.json.faithful", "E", "passed" if okj else "failed")
    if not okj:
        ck.violation("C11.json.faithful", "json", "cnf_to_json does not list exactly the literals / does not reject non-CNF input", {})
    ck.rule = (f"formula space: all formulas with <= 2 connectives over literals {LITS} incl. empty/unary/ternary And/Or ({n_sys}), {extra} seeded formulas of size 3-6, "
               "600+ renamings to reordered and non-contiguous ids; each under all assignments; non-trivial = distinct formula")
    ck.exhaustive = False
    ck.sample(dict(formula="If(And([1, Not(2)]), Iff(3, -1))", converters=[n for n, _ in fns]))
    ck.trust("the truth-table evaluator in this file")
    ck.assume("structural induction over the formula (children replaced by representatives, then the node contract) is a paper argument; the node contracts "
              "(miss defines, hit silent, key sound) are checked per node over a bounded operand domain, the whole-formula statement over the bounded formula space")
    return ck.finish()


if __name__ == "__main__":
    run_check(main)
