"""C13 — combinatorial unranking functions are bijections with correct counts (combinatorics.py)."""
import itertools
import math
import random
import time

from pyvc.report import Check, run_check, seed
from pyvc.smt import budget_ms
from checks.wp_common import run_wp

MOD = "sweetpea._internal.combinatorics:"


def multiset_perms(counters):
    items = [i for i, c in enumerate(counters) for _ in range(c)]
    return set(itertools.permutations(items))


def prefixes(counters, n):
    return {p[:n] for p in multiset_perms(counters)}


def bij(ck, oid, fn, N, expected, key, tier="E"):
    """fn(j) for j in range(N) must hit every element of `expected` exactly once"""
    got = []
    try:
        for j in range(N):
            got.append(tuple(fn(j)))
    except Exception as e:
        ck.oblig(f"{oid}[{key}]", tier, "failed", detail=f"raised {e!r}")
        ck.violation(oid, f"{oid}[{key}]", f"{oid} with {key}: raised {e!r} at index {len(got)}", dict(function=oid, parameters=key, index=len(got)))
        return False
    ok = len(expected) == N and len(set(got)) == N and set(got) == expected
    ck.count((oid, key))
    if not ok:
        why = (f"count {N} != {len(expected)} arrangements" if len(expected) != N else
               f"{N - len(set(got))} duplicate results" if len(set(got)) != N else f"{len(set(got) - expected)} results are not arrangements of the kind")
        ck.oblig(f"{oid}[{key}]", tier, "failed", detail=why)
        ck.violation(oid, f"{oid}[{key}]", f"{oid} with {key} is not a bijection of 0..N-1 onto the arrangements: {why}",
                     dict(function=oid, parameters=key, N=N, expected=len(expected), sample_results=[list(g) for g in got[:6]]))
    return ok


def main(tier):
    import sweetpea._internal.combinatorics as C
    ck = Check("C13", tier, "other",
               "Mixed-radix, base-n and falling-factorial unranking (extract_components, compute_jth_combination, "
               "compute_jth_inversion_sequence) are proved for all inputs by pyvc.wp: digits in range and rank(result) + (j div N)*N == j "
               "with N the product of the radices, hence injective on [0,N) and by counting bijective (paper pigeonhole). The remaining "
               "functions (combinations without replacement, permutation prefixes, permutations with bounded repetitions and their "
               "prefixes, the counting functions, shared PermutationMemo) are checked exhaustively for all parameter tuples up to a "
               "stated bound against itertools enumeration (bounded, never counted as proved).")
    names = ["extract_components", "compute_jth_combination", "compute_jth_inversion_sequence", "n_choose_m_given_m_factorial", "construct_permutation", "compute_jth_permutation_prefix"]
    run_wp(ck, names, budget_ms(tier), prefix="C13.")
    ck.under_contract(*[MOD + n for n in ("compute_jth_combination_without_replacement", "n_choose_m", "n_choose_m_given_m_factorial",
                                          "compute_jth_permutation_prefix", "construct_permutation", "construct_permutation_with_copies",
                                          "construct_permutation_with_varying_copies", "count_permutations_with_copies",
                                          "count_permutations_with_varying_copies", "count_prefixes_of_permutations_with_copies",
                                          "compute_jth_prefix_of_permutations_with_copies", "k_prefixes_of_permutations_with_copies")])
    big = tier == "thorough"
    t0 = time.time()
    allok = True
    # n_choose_m
    top = 16 if big else 12
    for n in range(0, top):
        for m in range(0, top):
            want = math.comb(n, m)
            got = C.n_choose_m(n, m)
            ck.count(("n_choose_m", n, m))
            if got != want:
                allok = False
                ck.violation("C13.n_choose_m.value", f"n_choose_m({n},{m})", f"n_choose_m({n},{m}) = {got}, expected {want}", dict(function=MOD + "n_choose_m", input=[n, m], output=got))
    # mixed radix / base n (also proved): bijection statement natively as a cross-check of the proof's reading
    for sizes in itertools.chain.from_iterable(itertools.product([1, 2, 3], repeat=L) for L in range(0, 4)):
        N = math.prod(sizes)
        allok &= bij(ck, "C13.extract_components.bij", lambda j: C.extract_components(list(sizes), j), N, set(itertools.product(*[range(s) for s in sizes])), f"sizes={list(sizes)}")
    for l in range(0, 4):
        for n in range(1, 4):
            allok &= bij(ck, "C13.jth_combination.bij", lambda j: C.compute_jth_combination(l, n, j), n ** l, set(itertools.product(range(n), repeat=l)), f"l={l},n={n}")
    # combinations without replacement
    for n in range(0, 8 if big else 7):
        for m in range(0, n + 1):
            exp = {tuple(sorted(c, reverse=True)) for c in itertools.combinations(range(n), m)}
            allok &= bij(ck, "C13.comb_without_replacement.bij", lambda j: tuple(sorted(C.compute_jth_combination_without_replacement(n, m, j), reverse=True)),
                         C.n_choose_m(n, m), exp, f"n={n},m={m}")
    # permutation prefixes
    for n in range(0, 7 if big else 6):
        for m in range(0, n + 1):
            N = math.factorial(n) // math.factorial(n - m)
            allok &= bij(ck, "C13.permutation_prefix.bij", lambda j: C.compute_jth_permutation_prefix(n, m, j), N, set(itertools.permutations(range(n), m)), f"n={n},m={m}")
    # permutations with copies (uniform / varying), whole
    for q in range(1, 5 if big else 4):
        for m in range(1, 4 if q < 4 else 3):
            if q * m > 8:
                continue
            N = math.factorial(q * m) // math.factorial(m) ** q
            allok &= bij(ck, "C13.perm_with_copies.bij", lambda j: C.construct_permutation_with_copies(j, q, m), N, multiset_perms([m] * q), f"q={q},m={m}")
            if C.count_permutations_with_copies(q, m, q * m) != N:
                allok = False
                ck.violation("C13.count_permutations_with_copies", f"q={q},m={m},first_n={q*m}", "count of whole permutations wrong", dict(q=q, m=m))
    cmax = 3
    counter_sets = [cs for q in range(1, 5 if big else 4) for cs in itertools.product(range(0, cmax + 1), repeat=q) if 0 < sum(cs) <= (8 if big else 7)]
    for cs in counter_sets:
        q = len(cs)
        N = math.factorial(sum(cs)) // math.prod(math.factorial(c) for c in cs)
        allok &= bij(ck, "C13.perm_with_varying_copies.bij", lambda j: C.construct_permutation_with_varying_copies(j, q, list(cs)), N, multiset_perms(cs), f"counters={list(cs)}")
    # prefixes: uniform and per-element counters, every first_n, count == |image|, shared memo in any order
    rng = random.Random(seed())
    for cs in counter_sets:
        q = len(cs)
        for first_n in range(0, sum(cs) + 1):
            exp = prefixes(cs, first_n)
            for mode in ("list",) + (("int",) if len(set(cs)) == 1 else ()):
                arg = list(cs) if mode == "list" else cs[0]
                memo = C.PermutationMemo()
                order = rng.choice(["count-first", "unrank-first"])
                if order == "count-first":
                    N = C.count_prefixes_of_permutations_with_copies(q, arg, first_n, memo)
                else:
                    if exp:
                        C.compute_jth_prefix_of_permutations_with_copies(q, arg, first_n, len(exp) - 1, memo)
                    N = C.count_prefixes_of_permutations_with_copies(q, arg, first_n, memo)
                pub = C.count_permutations_with_varying_copies(q, list(cs), first_n) if mode == "list" else C.count_permutations_with_copies(q, cs[0], first_n)
                if pub != len(exp):
                    allok = False
                    ck.violation("C13.count_prefixes.value", f"counters={list(cs)},first_n={first_n},{mode}", f"counting function reports {pub}, there are {len(exp)} prefixes",
                                 dict(function=MOD + "count_permutations_with_(varying_)copies", q=q, counters=list(cs), first_n=first_n, mode=mode))
                allok &= bij(ck, "C13.prefix_of_perm_with_copies.bij", lambda j: C.compute_jth_prefix_of_permutations_with_copies(q, arg, first_n, j, memo), N, exp,
                             f"counters={list(cs)},first_n={first_n},{mode},{order}")
                # the memo must still give the same count afterwards
                if C.count_prefixes_of_permutations_with_copies(q, arg, first_n, memo) != N:
                    allok = False
                    ck.violation("C13.memo.shared", f"counters={list(cs)},first_n={first_n},{mode}", "count changes after unranking with a shared PermutationMemo",
                                 dict(q=q, counters=list(cs), first_n=first_n))
    # larger random tuples: injectivity + count only (thorough)
    if big:
        for _ in range(300):
            q = rng.randint(2, 5)
            cs = [rng.randint(0, 3) for _ in range(q)]
            if not 0 < sum(cs) <= 9:
                continue
            first_n = rng.randint(0, sum(cs))
            memo = C.PermutationMemo()
            N = C.count_prefixes_of_permutations_with_copies(q, list(cs), first_n, memo)
            if N > 20000:
                continue
            got = {tuple(C.compute_jth_prefix_of_permutations_with_copies(q, list(cs), first_n, j, memo)) for j in range(N)}
            ck.count(("rand", tuple(cs), first_n))
            if len(got) != N:
                allok = False
                ck.violation("C13.prefix_of_perm_with_copies.inj", f"counters={cs},first_n={first_n}", "unranking not injective", dict(q=q, counters=cs, first_n=first_n))
    ck.oblig("C13.bounded.bijections(all parameter tuples)", "E", "passed" if allok else "failed", "cpython", time.time() - t0,
             f"{ck.evaluations} parameter tuples, every index 0..N-1 evaluated, compared with itertools enumeration")
    ck.rule = ("bounded part: every parameter tuple with counters <= 3, q <= 3 (thorough 4), total <= 7 (8), n <= 5 (6), sizes in {1,2,3}^<=3; for each, every index; "
               "non-trivial = distinct (function, parameters)")
    ck.exhaustive = True
    ck.sample(dict(function="compute_jth_prefix_of_permutations_with_copies", counters=[2, 1, 0], first_n=2, indices="0..N-1", oracle="itertools.permutations prefixes"))
    ck.trust("z3/cvc5 (wp obligations)", "itertools / math.comb as independent enumeration oracle")
    ck.assume("pyvc.wp encoding: mathematical integers, floor division via quotient/remainder, lists as values",
              "bijection from 'rank(f(j)) == j on [0,N)' and range facts by finite pigeonhole (paper)",
              "ghost weights W/Wn/Wf in the contracts are existential witnesses returned by the proof (mixed-radix weights)")
    return ck.finish()


if __name__ == "__main__":
    run_check(main)
