"""C28 — the ILP (OPB) export accepts the same assignments as the SAT encoding."""
import itertools
import random
import time
from pathlib import Path

from pyvc.report import Check, run_check, seed, WORK
from spec import opb, runner

REL = {"EQ": lambda c, k: c == k, "LT": lambda c, k: c < k, "GT": lambda c, k: c > k}


def main(tier):
    from sweetpea._internal.core.cnf import CNF, Var
    from sweetpea._internal.core.generate.utility import combine_and_save_opb, GenerationRequest, AssertionType
    from sweetpea._internal.core.generate import sample_ilp
    ck = Check("C28", tier, "other",
               "Contract on the OPB text: every rendered line is satisfied by an assignment iff the clause / cardinality request it renders is. "
               "The real as_opb_string, combine_and_save_opb and sample_ilp.update_file are run on every clause (multiset of literals: repeated and complementary literals included) over ids <= 5 with <= 3 (thorough 4) literals, "
               "every request (kind, n <= 6, k <= 8) and blocking constraints for all solutions of support <= 5; the text is evaluated by an "
               "independent pseudo-Boolean evaluator under ALL assignments (truth table: complete per shape, bounded in shape).")
    ck.under_contract("sweetpea._internal.core.cnf:CNF.as_opb_string", "sweetpea._internal.core.generate.utility:combine_and_save_opb",
                      "sweetpea._internal.core.generate.sample_ilp:update_file")
    big = tier == "thorough"
    WORK.mkdir(exist_ok=True)
    t0 = time.time()
    # ---- clauses
    nv = 5
    lits = [l for v in range(1, nv + 1) for l in (v, -v)]
    bad = None
    n_cl = 0
    for size in range(1, 5 if big else 4):
        # every multiset of literals: distinct variables, a variable in both polarities (tautological clause), a repeated literal
        for cl in itertools.combinations_with_replacement(lits, size):
            n_cl += 1
            text = CNF([list(cl)]).as_opb_string()
            cons = opb.parse(text)
            for bits in itertools.product([False, True], repeat=nv):
                asg = dict(zip(range(1, nv + 1), bits))
                want = any(asg[abs(l)] == (l > 0) for l in cl)
                if len(cons) != 1 or opb.satisfied(cons, asg) != want:
                    bad = (list(cl), text, asg, want)
                    break
            ck.count(("clause", cl))
            if bad:
                break
        if bad:
            break
    ck.oblig("C28.clause.opb(all clauses)", "S", "proved" if not bad else "refuted", "truth-table", time.time() - t0, f"{n_cl} clauses x 2^{nv} assignments")
    if bad:
        ck.violation("C28.clause.opb", f"clause:{bad[0]}", f"clause {bad[0]} rendered as {bad[1]!r} disagrees under assignment {bad[2]} (clause is {bad[3]})",
                     dict(function="sweetpea._internal.core.cnf:CNF.as_opb_string", clause=bad[0], text=bad[1], assignment=bad[2]))
    # a CNF of several clauses: conjunction
    rng = random.Random(seed())
    for _ in range(200 if not big else 1500):
        cls = [[rng.choice([-1, 1]) * v for v in (rng.sample(range(1, nv + 1), rng.randint(1, 3)) if rng.random() < 0.6 else [rng.randint(1, nv) for _ in range(rng.randint(1, 4))])]
               for _ in range(rng.randint(1, 4))]
        text = CNF(cls).as_opb_string()
        cons = opb.parse(text)
        for bits in itertools.product([False, True], repeat=nv):
            asg = dict(zip(range(1, nv + 1), bits))
            want = all(any(asg[abs(l)] == (l > 0) for l in c) for c in cls)
            if opb.satisfied(cons, asg) != want:
                ck.violation("C28.cnf.opb", f"cnf:{cls}", f"clause set {cls} rendered as {text!r} disagrees under {asg}", dict(clauses=cls, text=text, assignment=asg))
                break
        ck.count(("cnf", repr(cls)))
    # ---- requests through the real combine_and_save_opb
    t1 = time.time()
    first = {}
    for kind in REL:
        for n in range(1, 7 if big else 6):
            for k in range(0, 9 if big else n + 3):
                path = WORK / f"c28-{kind}-{n}-{k}.opb"
                path.unlink(missing_ok=True)
                ids = list(range(1, n + 1))
                runner.quiet(combine_and_save_opb, path, CNF(), n, [GenerationRequest(AssertionType[kind], k, [Var(i) for i in ids])])
                text = path.read_text()
                path.unlink()
                cons = opb.parse(text)
                for bits in itertools.product([False, True], repeat=n):
                    asg = dict(zip(ids, bits))
                    want = REL[kind](sum(bits), k)
                    if opb.satisfied(cons, asg) != want:
                        first.setdefault(kind, (n, k, text.strip(), asg, want))
                        break
                ck.count(("request", kind, n, k))
    for kind in REL:
        ok = kind not in first
        ck.oblig(f"C28.request.opb({kind})", "S", "proved" if ok else "refuted", "truth-table", time.time() - t1, "all n, k in the bound x all assignments")
        if not ok:
            n, k, text, asg, want = first[kind]
            ck.violation(f"C28.request.opb", f"request:{kind}", f"'{kind} {k}' over {n} variables is rendered {text!r}: under {asg} (count {sum(asg.values())}) the SAT meaning is {want}, the OPB text says {not want}",
                         dict(function="sweetpea._internal.core.generate.utility:combine_and_save_opb", kind=kind, n=n, k=k, text=text, assignment=asg))
    # ---- clauses + requests together, and the blocking constraint
    t2 = time.time()
    okb = True
    for support in range(1, 6 if big else 5):
        for sol_bits in itertools.product([False, True], repeat=support):
            sol = [v if b else -v for v, b in zip(range(1, support + 1), sol_bits)]
            path = WORK / f"c28-block-{support}.opb"
            path.write_text("+1 v1 >= 0 ;")
            sample_ilp.update_file(path, list(sol))
            cons = opb.parse(path.read_text())
            path.unlink()
            for bits in itertools.product([False, True], repeat=support):
                asg = dict(zip(range(1, support + 1), bits))
                want = tuple(bits) != tuple(sol_bits)          # excludes exactly the previous solution
                if opb.satisfied(cons, asg) != want:
                    okb = False
                    ck.violation("C28.block.opb", f"block:{sol}", f"blocking constraint for solution {sol} is {'satisfied' if not want else 'violated'} by {asg}",
                                 dict(function="sweetpea._internal.core.generate.sample_ilp:update_file", solution=sol, assignment=asg))
                    break
            ck.count(("block", tuple(sol)))
    ck.oblig("C28.block.opb(all solutions)", "S", "proved" if okb else "refuted", "truth-table", time.time() - t2)
    ck.rule = "one case per clause / clause set / request shape / blocked solution within the stated bounds; each evaluated under all assignments"
    ck.exhaustive = True
    ck.sample(dict(request=["GT", 2, [1, 2, 3]], rendered="see replay on violation", evaluator="spec/opb.py"))
    ck.trust("spec/opb.py (40-line evaluator of the OPB subset)", "Gurobi is absent: the property is about the exported text only")
    ck.assume("OPB semantics: linear pseudo-Boolean constraints over 0/1 variables v1..vN")
    return ck.finish()


if __name__ == "__main__":
    run_check(main)
