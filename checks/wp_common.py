"""Driver for pyvc.wp contracts inside a property check."""
from __future__ import annotations

import time

from pyvc import wp, nativespec
from contracts.wpc import W


def run_wp(ck, names, ms, prefix=""):
    """Verify the named wp contracts on the current source; record obligations; decide violations.
    -> dict name -> 'proved' | 'violated' | 'undecided'"""
    out = {}
    if not getattr(ck, "_sum_lemmas_done", False):
        for oid, (verdict, m, dt, be) in wp.check_sum_lemmas(ms):
            ck.oblig(prefix + oid, "P", verdict, be, dt, "axiom schema for sum(): congruence proved by induction (base/step)")
        ck._sum_lemmas_done = True
    from spec import runner
    big = max([ms] + [W[n].get("ms", 0) for n in names])
    results = runner.pmap(wp.verify_plain, [(n, ms) for n in names], jobs=min(8, len(names)), timeout=max(180, big // 1000 * 12))
    for name, (pst, r) in zip(names, results):
        c = W[name]
        ck.under_contract(c["target"])
        if pst != "ok":       # hard wall-clock limit or worker crash: undecided, never a verdict
            r = dict(error=f"verifier worker {pst}: {str(r)[:200]}", dropped=[], vcs=[], sha=None)
        for a in c.get("assumptions", []):
            ck.assume(f"{name}: {a}")
        if r.get("partial_loops"):
            ck.assume(f"{name}: termination of loop(s) {r['partial_loops']} is not proved (partial correctness only)")
        dropped = r["dropped"]
        if dropped:
            ck.extra.setdefault("extraction_dropped", {})[name] = dropped
        bad = []
        if r["error"]:
            ck.oblig(f"{prefix}{name}.extract", "P", "undecided", detail=r["error"])
            bad.append(("extract", "undecided", r["error"], None))
        folded = {}
        for vc in r["vcs"]:
            folded.setdefault(vc["oid"], []).append(vc)
        for oid, vcs in folded.items():
            if any(v["status"] == "refuted" for v in vcs):
                st = "refuted"
            elif all(v["status"] == "proved" for v in vcs):
                st = "proved"
            else:
                st = "undecided"
            ck.oblig(prefix + oid, "P", st, vcs[0]["backend"], sum(v["secs"] for v in vcs), vcs[0]["note"][:160] if st != "proved" else None)
            if st != "proved":
                v = next(v for v in vcs if v["status"] != "proved")
                bad.append((oid, st, v["note"], v["model"]))
        expected = c.get("obligations")
        if expected is not None and len(folded) != expected and not r["error"]:
            ck.oblig(f"{prefix}{name}.obligation-count", "P", "undecided", detail=f"generated {len(folded)} obligations, contract records {expected}")
            bad.append(("obligation-count", "undecided", f"{len(folded)} != {expected}", None))
        if not folded and not r["error"]:
            ck.oblig(f"{prefix}{name}.nonempty", "P", "undecided", detail="no obligations generated")
        # native twin: bounded stand-in and CPython cross-check of the engine
        t = time.time()
        try:
            n, ok, fail = nativespec.check_native(c)
        except Exception as e:
            n, ok, fail = 0, 0, None
            ck.extra.setdefault("native_errors", {})[name] = repr(e)
        if n:
            ck.oblig(f"{prefix}{name}.native", "E", "failed" if fail else "passed", "cpython", time.time() - t,
                     f"{n} inputs satisfying the precondition, contract evaluated on the real function")
            ck.evaluations += n
            ck.nontrivial.add(("native", name, n))
        if fail is not None:
            ck.violation(f"{name}.native", f"{name}:{fail.get('input')}"[:120],
                         f"{c['target']} violates its contract clause `{fail['clause']}` on input {fail.get('input')}",
                         dict(function=c["target"], failing_obligations=[b[0] for b in bad], native_failure=fail,
                              solver=[dict(obligation=b[0], status=b[1], note=b[2], model=b[3]) for b in bad][:6],
                              replay="pyvc.nativespec.check_native(contract) re-evaluates requires/ensures on the real function"))
            if not bad:
                ck.extra.setdefault("engine_disagreements", []).append(dict(contract=name, native=fail))
            out[name] = "violated"
        elif any(b[1] == "refuted" for b in bad):
            b0 = next(b for b in bad if b[1] == "refuted")
            ck.violation(b0[0], f"{name}:{b0[0]}", f"obligation {b0[0]} ({b0[2]}) refuted by the solver; no failing input found natively in the bounded domain",
                         dict(function=c["target"], clause=b0[2], solver_model=b0[3], source_sha=r.get("sha")),
                         failing_input_found=False)
            out[name] = "violated"
        elif bad:
            out[name] = "undecided"
        else:
            out[name] = "proved"
        ck.sample(dict(wp_contract=name, target=c["target"], obligations=len(folded), source_sha=r.get("sha"), verdict=out[name]))
    return out
