from pyvc.report import run_check
from checks.sys_checks import c23 as main

if __name__ == "__main__":
    run_check(main)
