"""C10 — cardinality constraints are encoded exactly (core/cnf.py, core/binary.py, generate/utility.py, backend.py)."""
import itertools
import random
import time

from pyvc.report import Check, run_check, seed
from pyvc.smt import budget_ms
from pyvc import native_cnf as N
from checks.cnf_common import run_plan, QUAL
from checks.wp_common import run_wp


def dispatch_checks(ck, tier):
    """combine_cnf_with_requests / LowLevelRequest.to_generation_request on the real code (tier E, exhaustive over assignments)."""
    from sweetpea._internal.core.cnf import CNF, Var
    from sweetpea._internal.core.generate.utility import combine_cnf_with_requests, GenerationRequest, AssertionType
    from sweetpea._internal.backend import LowLevelRequest
    rel = {"EQ": lambda c, k: c == k, "LT": lambda c, k: c < k, "GT": lambda c, k: c > k}
    rng = random.Random(seed())
    cases = []
    # systematic: every pair of kinds over overlapping variable sets; plus seeded triples
    for k1, k2 in itertools.product(rel, rel):
        cases.append((4, [(k1, 1, [1, 2, 3]), (k2, 2, [2, 3, 4])], [[1, 2], [-3, 4]]))
        cases.append((3, [(k1, 0, [1]), (k2, 3, [1, 2, 3])], []))
    for _ in range(60 if tier == "quick" else 400):
        s = rng.randint(2, 6)
        reqs = []
        for _ in range(rng.randint(1, 3)):
            vs = rng.sample(range(1, s + 1), rng.randint(1, s))
            reqs.append((rng.choice(list(rel)), rng.randint(0, len(vs) + 2), vs))
        init = [[rng.choice([-1, 1]) * v for v in rng.sample(range(1, s + 1), rng.randint(1, min(3, s)))] for _ in range(rng.randint(0, 3))]
        cases.append((s, reqs, init))
    t = time.time()
    for (s, reqs, init) in cases:
        key = repr((s, reqs, init))
        # round trip of the request object (C10.request.roundtrip)
        llrs = [LowLevelRequest(kind, k, list(vs)) for kind, k, vs in reqs]
        grs = [r.to_generation_request() for r in llrs]
        ok = all(g.assertion_type is AssertionType[kind] and g.k == k and [int(v) for v in g.boolean_values] == list(vs)
                 for g, (kind, k, vs) in zip(grs, reqs))
        if not ok:
            ck.oblig("C10.request.roundtrip", "E", "failed", detail=key)
            ck.violation("C10.request.roundtrip", "to_generation_request", "to_generation_request does not preserve comparison, k or variables",
                         dict(function="sweetpea._internal.backend:LowLevelRequest.to_generation_request", input=dict(support=s, requests=reqs)))
            continue
        try:
            cnf = combine_cnf_with_requests(CNF(init), s, s, grs)
        except Exception as e:
            ck.violation("C10.combine.dispatch", "combine:" + key[:80], f"combine_cnf_with_requests raised {e!r}",
                         dict(function="sweetpea._internal.core.generate.utility:combine_cnf_with_requests", input=dict(support=s, requests=reqs, cnf=init)))
            continue
        clauses = [[int(v) for v in cl] for cl in cnf]
        ids = sorted({abs(l) for c in clauses for l in c})
        aux = [v for v in ids if v > s]
        bad = None
        if any(c for c in init if c not in clauses):
            bad = "initial clauses not preserved"
        for bits in itertools.product([False, True], repeat=s):
            if bad:
                break
            asg = dict(zip(range(1, s + 1), bits))
            want = all(any((asg[abs(l)] if l > 0 else not asg[abs(l)]) for l in c) for c in init) and \
                all(rel[kind](sum(asg[v] for v in vs), k) for kind, k, vs in reqs)
            ms = N.models_under(clauses, [v if asg[v] else -v for v in asg], aux, limit=2)
            if bool(ms) != want:
                bad = f"assignment {asg}: satisfiable={bool(ms)} expected={want}"
            elif want and len(ms) != 1:
                bad = f"assignment {asg}: {len(ms)}+ extensions"
        ck.count(key)
        if bad:
            ck.oblig("C10.combine.dispatch", "E", "failed", detail=bad)
            ck.violation("C10.combine.dispatch", "combine:" + key[:80], "combine_cnf_with_requests: " + bad,
                         dict(function="sweetpea._internal.core.generate.utility:combine_cnf_with_requests", input=dict(support=s, requests=reqs, cnf=init)))
    # ---- two requests over the SAME variable list in one formula, every ordered pair of relations and thresholds of different bit lengths
    # (a later request must not be affected by circuits an earlier one left in the formula)
    t2 = time.time()
    n2 = 6
    vs2 = list(range(1, n2 + 1))
    ks = [1, 2, 4, 5] if tier == "quick" else [0, 1, 2, 3, 4, 5, 6, 7]
    bad2 = None
    npairs = 0
    for (kd1, k1), (kd2, k2) in itertools.product(itertools.product(rel, ks), repeat=2):
        grs = [LowLevelRequest(kd1, k1, list(vs2)).to_generation_request(), LowLevelRequest(kd2, k2, list(vs2)).to_generation_request()]
        try:
            cnf = combine_cnf_with_requests(CNF(), n2, n2, grs)
        except Exception as e:
            bad2 = bad2 or ((kd1, k1, kd2, k2), f"raised {e!r}")
            continue
        clauses = [[int(v) for v in cl] for cl in cnf]
        aux = sorted({abs(l) for c in clauses for l in c if abs(l) > n2})
        npairs += 1
        for bits in itertools.product([False, True], repeat=n2):
            cnt = sum(bits)
            want = rel[kd1](cnt, k1) and rel[kd2](cnt, k2)
            ms = N.models_under(clauses, [v if b_ else -v for v, b_ in zip(vs2, bits)], aux, limit=2)
            if bool(ms) != want or (want and len(ms) != 1):
                bad2 = bad2 or ((kd1, k1, kd2, k2), f"assignment {bits} (count {cnt}): {len(ms)} satisfying extension(s), expected {'exactly one' if want else 'none'}")
                break
        ck.count(("same-list", kd1, k1, kd2, k2))
    ck.oblig("C10.combine.same_list(all pairs)", "E", "passed" if bad2 is None else "failed", "pycryptosat", time.time() - t2,
             f"{npairs} ordered pairs of requests over one list of {n2} variables x all assignments")
    if bad2 is not None:
        (kd1, k1, kd2, k2), why = bad2
        ck.violation("C10.combine.same_list", f"same-list:{kd1}{k1}:{kd2}{k2}", f"requests '{kd1} {k1}' then '{kd2} {k2}' over the same {n2} variables in one formula: {why}",
                     dict(function="sweetpea._internal.core.generate.utility:combine_cnf_with_requests", input=dict(support=n2, requests=[[kd1, k1, vs2], [kd2, k2, vs2]], cnf=[])))
    # ---- large variable lists (beyond the per-shape proofs): the real clauses under fully specified inputs, around every power of two up to 1024
    t3 = time.time()
    sizes = sorted({m for p_ in range(5, 11) for m in (2 ** p_ - 1, 2 ** p_, 2 ** p_ + 1)} | {100, 300, 1000}) if tier == "quick" else \
        sorted({m for p_ in range(5, 13) for m in (2 ** p_ - 1, 2 ** p_, 2 ** p_ + 1, 2 ** p_ + 2)} | {100, 300, 769, 1000, 3000})
    bad3 = None
    nlarge = 0
    for n3 in sizes:
        vs3 = list(range(1, n3 + 1))
        for kind in rel:
            for k in sorted({0, 1, 5, n3 // 2, n3 - 1, n3}):
                try:
                    cnf = combine_cnf_with_requests(CNF(), n3, n3, [LowLevelRequest(kind, k, list(vs3)).to_generation_request()])
                except Exception as e:
                    bad3 = bad3 or ((kind, n3, k), f"raised {e!r}")
                    continue
                clauses = [[int(v) for v in cl] for cl in cnf]
                used = {abs(l) for c in clauses for l in c}
                decided = (kind == "LT" and k > n3) or (kind == "GT" and k >= n3) or (kind == "EQ" and k > n3)      # trivially true / false requests need not mention every variable
                if not set(vs3) <= used and not decided:
                    bad3 = bad3 or ((kind, n3, k), f"{len(set(vs3) - used)} of the {n3} variables occur in no clause, e.g. {sorted(set(vs3) - used)[:6]}")
                    continue
                aux = sorted(v for v in used if v > n3)
                pats = []
                for c_true in sorted({0, 1, k - 1, k, k + 1, n3} & set(range(0, n3 + 1))):
                    pats.append(set(vs3[:c_true]))                      # first c_true variables
                    pats.append(set(vs3[n3 - c_true:]))                 # last c_true variables
                    pats.append(set(rng.sample(vs3, c_true)))           # scattered
                for tset in pats:
                    want = rel[kind](len(tset), k)
                    ms = N.models_under(clauses, [v if v in tset else -v for v in vs3], aux, limit=1)
                    nlarge += 1
                    if bool(ms) != want:
                        bad3 = bad3 or ((kind, n3, k), f"{len(tset)} true variables ({sorted(tset)[:5]}...): satisfiable={bool(ms)}, expected {want}")
                        break
                ck.count(("large", kind, n3, k))
    ck.oblig("C10.large(spot checks)", "E", "passed" if bad3 is None else "failed", "pycryptosat", time.time() - t3,
             f"n in {sizes[:4]}..{sizes[-1]} ({len(sizes)} sizes) x 3 relations x 6 thresholds x fully specified inputs ({nlarge} solves)")
    if bad3 is not None:
        (kind, n3, k), why = bad3
        ck.violation("C10.large", f"large:{kind}:{n3}:{k}", f"'{kind} {k}' over {n3} variables: {why}",
                     dict(function="sweetpea._internal.core.generate.utility:combine_cnf_with_requests", input=dict(support=n3, requests=[[kind, k, "1..n"]], cnf=[])))
    ck.solver_s["pycryptosat"] += time.time() - t
    ck.oblig("C10.combine.dispatch(all cases)", "E", "passed" if not any(v["obligation"].startswith("C10.combine") for v in ck.viol) else "failed",
             "pycryptosat", time.time() - t, f"{len(cases)} request lists x all assignments of the support")
    ck.oblig("C10.request.roundtrip(all cases)", "E", "passed" if not any(v["obligation"].startswith("C10.request") for v in ck.viol) else "failed")
    ck.sample(dict(dispatch_case=dict(support=cases[-1][0], requests=cases[-1][1], cnf=cases[-1][2])))


def int_to_binary_native(ck, tier):
    from sweetpea._internal.core.binary import int_to_binary
    top = 1 << (12 if tier == "quick" else 16)
    for v in range(top):
        d = int_to_binary(v)
        ok = all(x in (1, -1) for x in d) and sum((1 << (len(d) - 1 - i)) for i, x in enumerate(d) if x == 1) == v and (v == 0) == (d == []) and (not d or d[0] == 1)
        if not ok:
            ck.oblig("C10.int_to_binary.value", "E", "failed", detail=f"value={v} -> {d}")
            ck.violation("C10.int_to_binary.value", f"int_to_binary({v})", f"int_to_binary({v}) = {d} is not the minimal binary representation",
                         dict(function="sweetpea._internal.core.binary:int_to_binary", input=v, output=d))
            return
    ck.oblig("C10.int_to_binary.value(native)", "E", "passed", detail=f"all values < {top}")


def main(tier):
    ck = Check("C10", tier, "other",
               "Contracts on the real cardinality encoders. assert_k_of_n / assert_k_less_than_n / assert_k_greater_than_n (+ "
               "_inequality_assertion, _make_same_length, _convert_to_negative_twos_complement) are executed concolically with "
               "symbolic ids/fresh counter; per shape (n,k) z3 decides, for all ids and all assignments, that the asserted units "
               "hold iff the count relation holds, given the callee contracts (pop_count, ripple_carry: C12), and that every "
               "auxiliary variable is defined exactly once (Lemma DE => unique extension). Bounded in (n,k) only (tier S). "
               "In addition pyvc.wp proves on the real source, for EVERY n and k, that under the definitional clauses the asserted unit clauses hold iff the count "
               "stands in the relation to k (assert_k_of_n and _inequality_assertion; _make_same_length and the two's complement helper are proved against the contracts "
               "used there, pop_count for symbolic n by contract). "
               "combine_cnf_with_requests and to_generation_request are checked on the real code over request lists x all "
               "assignments (tier E). Counterexamples are replayed on the real code with pycryptosat.")
    ck.under_contract(*[QUAL + n for n in ("assert_k_of_n", "assert_k_less_than_n", "assert_k_greater_than_n", "_inequality_assertion",
                                           "_make_same_length", "_convert_to_negative_twos_complement", "pop_count", "ripple_carry")],
                      "sweetpea._internal.core.binary:int_to_binary",
                      "sweetpea._internal.core.generate.utility:combine_cnf_with_requests",
                      "sweetpea._internal.backend:LowLevelRequest.to_generation_request")
    big = tier == "thorough"
    maxn = 16 if big else 9
    plan = [("_make_same_length", (a, b)) for a in range(0, 6) for b in range(0, 6)]
    plan += [("_convert_to_negative_twos_complement", (L,)) for L in range(1, 9 if big else 7)]
    for nm in ("assert_k_of_n", "assert_k_less_than_n", "assert_k_greater_than_n"):
        for n in range(1, maxn + 1):
            for k in range(0, (40 if big else 2 * n + 3) + 1):
                plan.append((nm, (k, n)))
    ck.rule = (f"one case per (encoder, k, n): n<=%d, k<=%s, all three relations; every callee contract instance relied on is verified in the same run; "
               "non-trivial = real encoder ran under symbolic ids and its obligations were generated" % (maxn, "40" if big else "2n+3"))
    ck.exhaustive = False
    run_plan(ck, plan, budget_ms(tier), native_limit=7 if not big else 9, prop_prefix="C10.")
    # int_to_binary, and assert_k_of_n for EVERY n and k (pop_count by contract): under the definitional clauses the asserted units hold iff exactly k inputs are true
    # and _inequality_assertion (fewer than / more than k) for every n and k: under the definitions the final unit clause holds iff count < k (count > k)
    run_wp(ck, ["int_to_binary", "assert_k_of_n", "inequality_assertion", "make_same_length", "convert_to_negative_twos_complement"], budget_ms(tier), prefix="C10.")
    dispatch_checks(ck, tier)
    int_to_binary_native(ck, tier)
    ck.trust("z3 / cvc5", "pycryptosat (native replay, dispatch check)", "CPython semantics of the executed encoder code")
    ck.assume("Lemma DE (paper): definitions of fresh variables by smaller ones have exactly one satisfying extension",
              "ids are distinct positive variables not above the fresh counter (the property's precondition)",
              "int_to_binary(k) evaluated concretely per shape (its contract — minimal binary digits of k — is proved for all k by pyvc.wp)",
              "pyvc.wp encoding: mathematical integers, floor division by fresh quotient/remainder, lists as (array,length) values without aliasing")
    return ck.finish()


if __name__ == "__main__":
    run_check(main)
