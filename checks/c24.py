from pyvc.report import run_check
from checks.sys_checks import c24 as main

if __name__ == "__main__":
    run_check(main)
