"""C05 — RandomGen samples uniformly: one candidate per valid sequence (sampling_strategy/random.py)."""
import itertools
from collections import Counter
from fractions import Fraction

from pyvc.report import Check, run_check, seed
from pyvc.smt import budget_ms
from checks import sys_common as SC
from checks.sys_checks import _t, multiplicity_mismatch, _cls
from checks.wp_common import run_wp
from spec import model, runner


def _eval(arg):
    d, limit = arg
    out = {"name": d["name"]}
    try:
        geo = model.geometry(d)
        lo, amb = model.valid_sets(d, limit=60000)
    except model.Unsupported as e:
        out["oracle_unsupported"] = str(e)
        return out
    try:
        block, _ = model.build(d)
    except Exception as e:
        out["build_error"] = str(e)[:100]
        return out
    from sweetpea._internal.sampling_strategy.random import RandomGen, UCSolutionEnumerator
    from sweetpea._internal.primitive import HiddenName
    if runner.quiet(block.show_errors):
        out["errors"] = True
        return out
    try:
        en = runner.quiet(UCSolutionEnumerator, block)
    except Exception as e:
        out["enumerator_exception"] = [type(e).__name__, str(e)[:200]]
        return out
    cs = en.crossing_size
    T = block.trials_per_sample()
    pre = en._preamble_size
    rounds, leftover = (T - pre) // cs, (T - pre) % cs
    n_inst = len(en._crossing_instances)

    # probability with which random_components draws a component tuple: one uniform draw per index, the ranges of the source-combination draws depend on
    # the permutation drawn first (so tuples under different permutations can have different probabilities)
    weight = {}
    # the one-to-one case (one source-combination index per crossing combination) needs a crossing without complex factors (fix 2bb5226, D39); read from the
    # enumerator so that this mirror follows the code
    one_to_one = getattr(en, "_UCSolutionEnumerator__complex_crossing_instances", 1) == 1

    def all_components(shape, trial_count, lo_flag):
        for cpi in range(shape.crossings_shape):
            if trial_count == n_inst and en._crossing_is_unweighted and one_to_one:
                src_ranges = [range(n) for n in shape.combinations_shapes]
            else:
                perm = en.jth_permutation_indices(n_inst, cs if lo_flag == 0 else lo_flag, cpi, en._pmemo if lo_flag == 0 else en._leftover_pmemo)
                src_ranges = [range(shape.combinations_shapes[p]) for p in perm]
            den = shape.crossings_shape
            for r_ in src_ranges:
                den *= len(r_)
            for n in shape.independent_shapes:
                den *= n
            for src in itertools.product(*src_ranges):
                for ind in itertools.product(*[range(n) for n in shape.independent_shapes]):
                    weight[(lo_flag, cpi, tuple(src), tuple(ind))] = Fraction(1, den)
                    yield (cpi, tuple(src), tuple(ind))
    comps = list(all_components(en._components_shape, cs, 0)) if en.solution_count() else []
    lcomps = list(all_components(en._leftover_components_shape, leftover, leftover)) if leftover > 0 else [0]
    out["shape"] = dict(solution_count=en.solution_count(), components=len(comps), leftover_solution_count=en.leftover_solution_count(), leftover_components=len(lcomps),
                        preamble_solution_count=en.preamble_solution_count(), rounds=rounds, leftover=leftover, crossing_size=cs, preamble=pre)
    total = en.preamble_solution_count() * (len(comps) ** rounds) * len(lcomps)
    out["candidates"] = total
    if total > limit:
        out["too_many"] = True
        return out
    names = SC.user_factors(d)
    hits = Counter()
    mass = Counter()
    accepted = 0
    for p in range(en.preamble_solution_count()):
        for rc in itertools.product(comps, repeat=rounds):
            for lc in lcomps:
                svs = [(p, en.generate_preamble_sample(p))] + [(c, en.generate_sample_from_components(c)) for c in rc] + \
                      ([(lc, en.generate_leftover_sample(lc, leftover))] if leftover > 0 else [])
                run = svs[0][1]
                for r in range(rounds + (1 if leftover > 0 else 0)):
                    run = RandomGen._RandomGen__combine_round(run, svs[r + 1][1])
                run = en.fill_in_nonpreamble_uncrossed_derived(run, T)
                if RandomGen._RandomGen__are_constraints_violated(block, run, en, rounds, leftover, 0):
                    continue
                accepted += 1
                e = block.add_implied_levels(en.factors_and_levels_to_names(run))
                e = {k: v for k, v in e.items() if not isinstance(k, HiddenName)}
                hits[SC.key_of_exp(e, names)] += 1
                w = Fraction(1, max(en.preamble_solution_count(), 1))
                for c in rc:
                    w *= weight[(0,) + c]
                if leftover > 0:
                    w *= weight[(leftover,) + lc]
                mass[SC.key_of_exp(e, names)] += w
    out["accepted"] = accepted
    L, U = set(map(_t, lo)), set(map(_t, lo)) | set(map(_t, amb))
    got = {_t(k): n for k, n in hits.items()}
    out["n_valid"] = len(L)
    out["missing"] = [dict(k) for k in list(L - set(got))[:1]]
    out["n_missing"] = len(L - set(got))
    out["invalid"] = [dict(k) for k in list(set(got) - U)[:1]]
    out["n_invalid"] = len(set(got) - U)
    dup = multiplicity_mismatch(d, got, L)
    dup = list(dup) if dup else None
    out["dup"] = dup
    # uniformity of ONE requested sample: the probability mass of each valid sequence (per documented copy) must be the same
    per_copy = {}
    for k, n in hits.items():
        per_copy[k] = mass[k] / n
    vals = sorted(set(per_copy.values()))
    if len(vals) > 1:
        lo_k = min(per_copy, key=lambda k: per_copy[k])
        hi_k = max(per_copy, key=lambda k: per_copy[k])
        tot = sum(mass.values())
        out["nonuniform"] = dict(distinct_masses=len(vals), low=[str(per_copy[lo_k] / tot), dict(lo_k)], high=[str(per_copy[hi_k] / tot), dict(hi_k)])
    return out


def main(tier):
    ck = Check("C05", tier, "exploration",
               "RandomGen's candidate space, enumerated completely through the enumerator's own generation methods (preamble index x per-round component tuples x "
               "leftover components, built exactly as RandomGen.__sample builds a run, including the rejection test): per design of D with at most the stated number "
               "of candidates, (i) the component ranges drawn by random_components have exactly the sizes the counting code reports (solution_count, "
               "leftover_solution_count), (ii) every accepted candidate is a valid sequence, (iii) every valid sequence is produced by exactly one accepted "
               "candidate (times the documented copy multiplicity). Hence one requested sample is uniform over the valid sequences. Links proved for all inputs "
               "(pyvc.wp): extract_components, compute_jth_combination, compute_jth_inversion_sequence; the other unranking functions are C13 (bounded).")
    run_wp(ck, ["extract_components", "compute_jth_combination", "compute_jth_inversion_sequence"], budget_ms(tier), prefix="C05.link.")
    ck.under_contract(*["sweetpea._internal.sampling_strategy.random:UCSolutionEnumerator." + n for n in
                        ("random_components", "generate_sample_from_components", "generate_leftover_sample", "generate_preamble_sample", "generate_trial_values",
                         "fill_in_nonpreamble_uncrossed_derived", "__count_solutions", "sum_combination_products")])
    ds = SC.design_space(tier, seed(), random_n=40 if tier == "quick" else 500)
    limit = 6000 if tier == "quick" else 60000
    res = runner.pmap(_eval, [(d, limit) for d in ds], jobs=14, timeout=60 if tier == "quick" else 300)
    for d, (st, r) in zip(ds, res):
        if st != "ok":
            ck.oblig(f"C05.bijection({d['name']})", "E", "undecided", detail=f"worker {st}: {str(r)[:150]}")
            continue
        if any(k in r for k in ("oracle_unsupported", "build_error", "errors", "too_many")):
            ck.count(d["name"], nontrivial=False)
            continue
        if "enumerator_exception" in r:
            ck.count(d["name"], nontrivial=False)
            ck.extra.setdefault("enumerator_exceptions", []).append([d["name"], r["enumerator_exception"]])
            continue
        ck.count(d["name"])
        sh = r["shape"]
        ok_shape = sh["components"] == sh["solution_count"] and (sh["leftover"] == 0 or sh["leftover_components"] == sh["leftover_solution_count"])
        ck.oblig(f"C05.shape.consistent({d['name']})", "E", "passed" if ok_shape else "failed", detail=None if ok_shape else str(sh))
        if not ok_shape:
            ck.violation("C05.shape.consistent", f"{_cls(d, 'shape')}:{d['name']}", f"design {d['name']}: random_components ranges over {sh['components']} (+{sh['leftover_components']} leftover) tuples, the counting code reports {sh['solution_count']} (+{sh['leftover_solution_count']})",
                         SC.design_replay(d, strategy="enumerator", shape=sh), tags=dict(kind="shape", features=SC.feature_class(d)))
        bad = None
        if r["n_invalid"]:
            bad = f"{r['n_invalid']} accepted candidate(s) are invalid sequences, e.g. {r['invalid'][0]}"
        elif r["n_missing"]:
            bad = f"{r['n_missing']} valid sequence(s) are produced by no accepted candidate, e.g. {r['missing'][0]}"
        elif r["dup"]:
            bad = f"a valid sequence is produced by {r['dup'][1]} accepted candidates (expected {r['dup'][2]}): {r['dup'][0]}"
        ck.oblig(f"C05.bijection({d['name']})", "E", "passed" if not bad else "failed", detail=bad or f"{r['candidates']} candidates, {r['accepted']} accepted, {r['n_valid']} valid")
        if bad:
            ck.violation("C05.bijection", f"{_cls(d, 'bijection')}:{d['name']}", f"design {d['name']}: {bad}", SC.design_replay(d, strategy="enumerator"),
                         tags=dict(kind="bijection", features=SC.feature_class(d)))
        nu = r.get("nonuniform")
        if not bad:
            ck.oblig(f"C05.uniform({d['name']})", "E", "passed" if not nu else "failed",
                     detail=None if not nu else f"conditional probability of a returned sequence ranges from {nu['low'][0]} to {nu['high'][0]}")
            if nu:
                ck.violation("C05.uniform", f"{_cls(d, 'uniform')}:{d['name']}",
                             f"design {d['name']}: one requested sample is not uniform over the valid sequences: {nu['low'][1]} has probability {nu['low'][0]}, "
                             f"{nu['high'][1]} has {nu['high'][0]} (the source-combination draws of random_components have permutation-dependent ranges)",
                             SC.design_replay(d, strategy="enumerator", nonuniform=nu), tags=dict(kind="uniform", features=SC.feature_class(d)))
        ck.sample(dict(design=d["name"], candidates=r["candidates"], accepted=r["accepted"], valid=r["n_valid"], shape=sh))
    ck.rule = f"one case per design of D that RandomGen accepts, the reference reading covers and that has at most {limit} candidates; every candidate index is generated"
    ck.exhaustive = False
    ck.trust("spec/model.py reference reading", "CPython")
    ck.assume("random.randrange is uniform and successive draws are independent (not checked); the probability of a candidate is the product of 1/range over the "
              "draws random_components makes for it", "bounded design space D")
    return ck.finish()


if __name__ == "__main__":
    run_check(main)
