"""C20 — output conversions preserve trials and hide internal factors (main.py)."""
import csv
import os
import random

from pyvc.report import Check, run_check, seed, WORK
from checks import sys_common as SC
from checks.wp_common import run_wp
from pyvc.smt import budget_ms
from spec import model, runner, designs as DS


def _eval(arg):
    d, workdir = arg
    import sweetpea as sp
    from sweetpea._internal.primitive import HiddenName
    out = {"name": d["name"], "fails": []}
    try:
        block, _ = model.build(d)
    except Exception as e:
        out["build_error"] = str(e)[:100]
        return out
    names = SC.declared_factors(d)          # discrete factors in design order, then the continuous factors the same block declares
    fails = out["fails"]
    exps = []
    for strat in ("IterateSATGen", "RandomGen"):
        try:
            res = runner.synth(block, 3, strat)
        except Exception:
            continue
        for e in res:
            if any(isinstance(k, HiddenName) for k in e) or sorted(map(str, e)) != sorted(names):
                fails.append(("keys", f"{strat} returned factors {sorted(map(str, e))}, the user declared {sorted(names)}"))
        exps += res
    if not exps:
        out["n"] = 0
        return out
    # arbitrary well-formed experiments too: permuted / repeated trials of the synthesized ones
    rng = random.Random(len(exps))
    T = len(exps[0][names[0]])
    for _ in range(3):
        idx = [rng.randrange(T) for _ in range(rng.randint(0, T + 1))]
        exps.append({f: [exps[0][f][i] for i in idx] for f in exps[0]})
    tup = sp.experiments_to_tuples(block, exps)
    dic = sp.experiments_to_dicts(block, exps)
    for i, e in enumerate(exps):
        n = len(e[names[0]])
        want_t = [tuple(e[f][t] for f in names) for t in range(n)]
        if [tuple(x) for x in tup[i]] != want_t:
            fails.append(("tuples", f"experiment {i}: experiments_to_tuples gives {tup[i][:2]}..., expected {want_t[:2]}... in design order {names}"))
        want_d = [{f: e[f][t] for f in names} for t in range(n)]
        if dic[i] != want_d or any(list(row.keys()) != names for row in dic[i]):
            fails.append(("dicts", f"experiment {i}: experiments_to_dicts gives {dic[i][:1]}, expected {want_d[:1]}"))
    os.makedirs(workdir, exist_ok=True)
    cwd = os.getcwd()
    os.chdir(workdir)
    try:
        runner.quiet(sp.save_experiments_csv, block, exps, "c20")
        for i, e in enumerate(exps):
            with open(f"c20_{i}.csv", newline="") as fh:
                rows = list(csv.reader(fh))
            n = len(e[names[0]])
            want = [names] + [[str(e[f][t]) for f in names] for t in range(n)]
            if rows != want:
                fails.append(("csv", f"experiment {i}: file has {rows[:2]}, expected {want[:2]}"))
        extra = [f for f in os.listdir(".") if f.startswith("c20_")]
        if len(extra) != len(exps):
            fails.append(("csv", f"{len(extra)} files written for {len(exps)} experiments"))
    finally:
        os.chdir(cwd)
        for f in os.listdir(workdir):
            os.unlink(os.path.join(workdir, f))
        os.rmdir(workdir)
    out["n"] = len(exps)
    out["fails"] = fails[:4]
    return out


def raw_helpers(ck, tier):
    """_experiments_to_tuples/_experiments_to_dicts/_experiments_to_csv on arbitrary experiments and key lists"""
    import sweetpea._internal.main as M
    rng = random.Random(seed())
    ok = True
    for _ in range(300 if tier == "quick" else 3000):
        nf = rng.randint(1, 4)
        keys = [f"f{i}" for i in range(nf)]
        extra = [f"h{i}" for i in range(rng.randint(0, 2))]
        exps = []
        for _ in range(rng.randint(0, 3)):
            n = rng.randint(0, 5)
            exps.append({k: [rng.choice(["a", "b", "", 1, 2.5]) for _ in range(n)] for k in keys + extra})
        sel = rng.sample(keys, rng.randint(1, nf))
        t = M._experiments_to_tuples(exps, sel)
        dd = M._experiments_to_dicts(exps, sel)
        for e, te, de in zip(exps, t, dd):
            n = len(e[sel[0]])
            if [tuple(x) for x in te] != [tuple(e[k][i] for k in sel) for i in range(n)] or de != [{k: e[k][i] for k in sel} for i in range(n)]:
                ok = False
                ck.violation("C20.tuples.pointwise", "raw-helpers", f"_experiments_to_tuples/_dicts disagree with the experiment on keys {sel}", dict(experiment=e, keys=sel, tuples=str(te)[:200], dicts=str(de)[:200]))
                break
        ck.count(("raw", _))
        if not ok:
            break
    ck.oblig("C20.tuples.pointwise / C20.dicts.pointwise (raw helpers)", "E", "passed" if ok else "failed")


def main(tier):
    ck = Check("C20", tier, "other",
               "Deductive part (pyvc.wp on the real source, all inputs): _experiments_to_tuples and _experiments_to_dicts return, for every list of experiments and "
               "every list of keys present in them, one entry per experiment in order, as many trials as the shortest selected column, and trial t holds under "
               "position j / key keys[j] exactly experiments[e][keys[j]][t]; the dicts have no other key (experiment dicts and the produced tuples/dicts are opaque "
               "objects with accessor functions; zip(*rows) and dict(zip(keys, tuple)) enter through their builtin contracts). Bounded part: "
               "Conversions over the designs of D (incl. weighted factors outside the crossing, which the library desugars into hidden factors) and over arbitrary "
               "well-formed experiment lists: experiments_to_tuples / experiments_to_dicts / save_experiments_csv must reproduce, per experiment and trial in "
               "order, exactly the values of each user-declared factor in design order; neither synthesize_trials nor the conversions may expose a factor the "
               "user did not declare (HiddenName). CSV files are written to a scratch directory and read back with the csv module.")
    ck.under_contract(*["sweetpea._internal.main:" + n for n in ("_experiments_to_tuples", "_experiments_to_dicts", "_experiments_to_csv", "experiments_to_tuples",
                                                                  "experiments_to_dicts", "save_experiments_csv", "__filter_hidden", "__filter_hidden_keys")])
    run_wp(ck, ["experiments_to_tuples", "experiments_to_dicts"], budget_ms(tier), prefix="C20.wp.")
    raw_helpers(ck, tier)
    ds = SC.design_space(tier, seed(), random_n=25 if tier == "quick" else 300, continuous=True)
    WORK.mkdir(exist_ok=True)
    args = [(d, str(WORK / f"c20-{os.getpid()}-{i}")) for i, d in enumerate(ds)]
    res = runner.pmap(_eval, args, jobs=14, timeout=60)
    for (d, wd), (st, r) in zip(args, res):
        if st != "ok":
            ck.oblig(f"C20.convert({d['name']})", "E", "undecided", detail=f"worker {st}: {str(r)[:150]}")
            continue
        if "build_error" in r or not r.get("n"):
            ck.count(d["name"], nontrivial=False)
            continue
        ck.count(d["name"])
        ok = not r["fails"]
        ck.oblig(f"C20.convert({d['name']})", "E", "passed" if ok else "failed", detail=None if ok else str(r["fails"][0])[:300])
        if not ok:
            kind, what = r["fails"][0]
            ck.violation(f"C20.{kind}", f"{kind}:{d['name']}", f"design {d['name']}: {what}", SC.design_replay(d, strategy="convert", failures=r["fails"]),
                         tags=dict(kind=kind, features=SC.feature_class(d)))
        ck.sample(dict(design=d["name"], experiments=r["n"]))
    ck.rule = "one case per design of D with at least one synthesized experiment (plus permuted / repeated-trial variants) and 300 (thorough 3000) random raw experiment lists"
    ck.trust("csv module as reader", "CPython")
    ck.assume("values are strings/numbers without the CSV delimiter")
    return ck.finish()


if __name__ == "__main__":
    run_check(main)
