"""Shared machinery for the whole-system properties: evaluate designs of the bounded space D on the real library
(in killable workers) and on the reference reading of the documentation (spec.model)."""
from __future__ import annotations

import json
import os
import time
import traceback

from spec import model, designs, runner

ALL_STRATS = ("IterateSATGen", "RandomGen")


def design_space(tier, seed, tags=None, exclude=(), random_n=None, continuous=False):
    ds = designs.curated()
    if not continuous:
        ds = [d for d in ds if "continuous" not in d["tags"]]      # designs with continuous factors: only for the checks that ask for them (C08, C20)
    n = random_n if random_n is not None else (40 if tier == "quick" else 400)
    ds += designs.random_designs(seed, n)
    if tier == "thorough":
        ds += designs.random_designs(seed + 1000003, n)
    if tags:
        ds = [d for d in ds if any(t in d["tags"] for t in tags)]
    if exclude:
        ds = [d for d in ds if not any(t in d["tags"] for t in exclude)]
    return ds


def declared_factors(d):
    """user_factors plus the continuous factors the design declares (after the discrete ones of the same block)"""
    def walk(node):
        k = node["kind"]
        if k in ("cross", "multi"):
            return list(node["design"]) + list(node.get("continuous", []))
        if k == "repeat":
            return walk(node["block"])
        if k == "merge":
            out = []
            for b in node["blocks"]:
                out += [f for f in walk(b) if f not in out]
            return out
        if k == "nest":
            out = walk(node["outer"])
            return out + [f for f in walk(node["inner"]) if f not in out]
        raise ValueError(k)
    return walk(d["block"])


def user_factors(d):
    """names of the factors the user declared in the design (in design order of the outermost combination)"""
    def walk(node):
        k = node["kind"]
        if k in ("cross", "multi"):
            return list(node["design"])
        if k == "repeat":
            return walk(node["block"])
        if k == "merge":
            out = []
            for b in node["blocks"]:
                out += [f for f in walk(b) if f not in out]
            return out
        if k == "nest":
            out = walk(node["outer"])
            return out + [f for f in walk(node["inner"]) if f not in out]
        raise KeyError(k)
    return walk(d["block"])


def key_of_exp(exp, names):
    return tuple((f, tuple(exp[f])) for f in sorted(names))


def own_projected_models(block, limit):
    """Enumerate the models of the compiled formula projected on the trial variables with our own blocking loop
    (independent of compute_solutions/update_file), check each has exactly one extension, decode with the library's decoder."""
    import pycryptosat
    from sweetpea._internal.core.cnf import CNF
    from sweetpea._internal.core.generate.utility import combine_cnf_with_requests
    from sweetpea._internal.sampling_strategy.base import Gen
    br = block.build_backend_request()
    if runner.quiet(block.show_errors):
        return dict(errors=True, models=[], non_unique=[], unused_aux=[], support=block.variables_per_sample())
    support = block.variables_per_sample()
    cnf = combine_cnf_with_requests(CNF(br.get_cnfs_as_json()), br.fresh - 1, support, br.get_requests_as_generation_requests())
    clauses = [[int(v) for v in cl] for cl in cnf]
    used = {abs(l) for c in clauses for l in c}
    top = max(used | {support})
    s = pycryptosat.Solver()
    for c in clauses:
        s.add_clause(c)
    models, non_unique = [], []
    while len(models) < limit:
        sat, m = s.solve()
        if not sat:
            break
        proj = [v if m[v] else -v for v in range(1, support + 1)]
        # uniqueness of the extension: another model with the same projection but different auxiliaries?
        aux = [v for v in sorted(used) if v > support]
        if aux:
            s2 = pycryptosat.Solver()
            for c in clauses:
                s2.add_clause(c)
            for l in proj:
                s2.add_clause([l])
            s2.add_clause([(-v if m[v] else v) for v in aux])
            sat2, _ = s2.solve()
            if sat2:
                non_unique.append(proj)
        models.append(proj)
        s.add_clause([-l for l in proj])
    return dict(errors=False, models=models, non_unique=non_unique, n_clauses=len(clauses), n_vars=top, support=support,
                unused_aux=[v for v in range(support + 1, top + 1) if v not in used][:10],
                unused_support=[v for v in range(1, support + 1) if v not in used][:10], truncated=len(models) >= limit)


def decode_models(block, models):
    import sweetpea._internal.main as M
    from sweetpea._internal.sampling_strategy.base import Gen
    out = []
    for proj in models:
        e = Gen.decode(block, list(proj))
        e = block.add_implied_levels(e)
        out.append({k: v for k, v in e.items() if isinstance(k, str)})
    return out


def evaluate(arg):
    """worker: -> JSON-able facts about one design"""
    d, want, opts = arg
    t0 = time.time()
    out = {"name": d["name"], "tags": d["tags"]}
    names = user_factors(d)
    out["user_factors"] = names
    geo = None
    lo = amb = None
    try:
        geo = model.geometry(d)
        out["T_oracle"] = geo["T"]
        out["oracle_errors"] = geo["errors"]
        if "sets" in want:
            lo, amb = model.valid_sets(d, limit=opts.get("space_limit", 150_000))
            out["lo"], out["amb"] = lo, amb
    except model.Unsupported as e:
        out["oracle_unsupported"] = str(e)
    # D is bounded by the size of the sequence space (DESIGN 3.3): larger designs are not part of this run
    try:
        sp = model.space_size(d)
    except model.Unsupported:
        sp = None
    out["space"] = sp
    if sp is not None and sp > opts.get("space_limit", 150_000):
        out["skipped"] = f"sequence space {sp} above the bound {opts.get('space_limit', 150_000)}"
        return out
    try:
        block, objs = model.build(d)
    except Exception as e:
        out["build_error"] = [type(e).__name__, str(e)[:300]]
        out["secs"] = time.time() - t0
        return out
    try:
        out["T_lib"] = block.trials_per_sample()
        out["errors"] = sorted(block.errors)
    except Exception as e:
        out["T_error"] = [type(e).__name__, str(e)[:300], traceback.format_exc()[-1500:]]
    n = opts.get("n", 3000)
    for strat in want:
        if strat not in ("IterateSATGen", "RandomGen", "CMSGen", "UniGen", "IterateGen", "UniformGen", "SMGen"):
            continue
        t = time.time()
        try:
            res = runner.synth(block, opts.get("n_" + strat, n), strat)
            rec = dict(n=len(res), keys=[key_of_exp(e, names) for e in res if all(f in e for f in names)],
                       keysets=[sorted(map(str, e.keys())) for e in res[:1]],
                       lens=sorted({len(v) for e in res for v in e.values()}))
            if geo is not None:
                bad = []
                for e in res:
                    try:
                        c = model.classify(d, {f: list(e[f]) for f in geo["design"]}, geo) if all(f in e for f in geo["design"]) else model.INVALID
                    except model.Unsupported:
                        c = None
                    if c == model.INVALID:
                        bad.append({f: list(e.get(f, [])) for f in names})
                rec["invalid"] = bad[:3]
                rec["n_invalid"] = len(bad)
            out[strat] = rec
        except Exception as e:
            out[strat] = dict(exception=[type(e).__name__, str(e)[:300], traceback.format_exc()[-2000:]])
        out[strat]["secs"] = round(time.time() - t, 2)
    if "cnf" in want:
        try:
            pm = own_projected_models(block, opts.get("model_limit", 3000))
            seqs = decode_models(block, pm["models"]) if not pm["errors"] else []
            pm["keys"] = [key_of_exp(e, names) for e in seqs if all(f in e for f in names)]
            if geo is not None:
                bad = []
                for e in seqs:
                    try:
                        c = model.classify(d, {f: list(e[f]) for f in geo["design"]}, geo) if all(f in e for f in geo["design"]) else model.INVALID
                    except model.Unsupported:
                        c = None
                    if c == model.INVALID:
                        bad.append({f: list(e.get(f, [])) for f in names})
                pm["invalid"], pm["n_invalid"] = bad[:3], len(bad)
            pm["n_models"] = len(pm.pop("models"))
            pm["n_non_unique"] = len(pm["non_unique"])
            pm["non_unique"] = pm["non_unique"][:2]
            out["cnf"] = pm
        except Exception as e:
            out["cnf"] = dict(exception=[type(e).__name__, str(e)[:300], traceback.format_exc()[-2000:]])
    if "mismatch" in want and geo is not None:
        # the library's checker on every candidate sequence of the design vs the reference reading
        try:
            import sweetpea as sp
            fa, fr, n_seq, n_valid = [], [], 0, 0
            valid_keep = []
            lim = opts.get("mismatch_limit", 20000)
            for seq in model.enumerate_sequences(d, geo, opts.get("space_limit", 150_000)):
                n_seq += 1
                if n_seq > lim:
                    break
                c = model.classify(d, seq, geo)
                n_valid += c == model.VALID
                if c == model.VALID and len(valid_keep) < opts.get("perturb_from", 12):
                    valid_keep.append({f: list(v) for f, v in seq.items()})
                try:
                    mm = runner.quiet(sp.sample_mismatch_experiment, block, {f: list(seq[f]) for f in names})
                except Exception as e:
                    mm = {"exception": [type(e).__name__, str(e)[:200]]}
                if c == model.INVALID and not mm and len(fa) < 3:
                    fa.append({f: list(seq[f]) for f in names})
                if c == model.VALID and mm and len(fr) < 3:
                    fr.append([{f: list(seq[f]) for f in names}, {k: str(v)[:200] for k, v in mm.items()}])
                if c == model.INVALID and not mm:
                    out.setdefault("mismatch", {}).setdefault("n_false_accept", 0)
                    out["mismatch"]["n_false_accept"] += 1
                if c == model.VALID and mm:
                    out.setdefault("mismatch", {}).setdefault("n_false_reject", 0)
                    out["mismatch"]["n_false_reject"] += 1
            # The enumeration above fills derived levels in by their definition and keeps sustained factors constant inside a group, so it never
            # contains a wrong derived label or a broken group.  Single-trial perturbations of valid sequences add those: every factor (basic or
            # derived), every trial that has a level, every other level name; the perturbed sequence is judged by the reference reading.
            n_pert = 0
            if valid_keep:
                fm_ = model.factor_map(d)
                for seq in valid_keep:
                    for f in names:
                        if f not in seq:
                            continue
                        # (no '' alternative: C17 speaks of candidates that give every factor a level name wherever the factor applies)
                        alts = sorted(set(model.level_names(fm_[f])), key=str)
                        for t in range(len(seq[f])):
                            for a in alts:
                                if a == seq[f][t] or seq[f][t] == "" or n_pert >= opts.get("perturbation_limit", 1500):
                                    continue
                                s2 = {g_: list(v) for g_, v in seq.items()}
                                s2[f][t] = a
                                try:
                                    c2 = model.classify(d, s2, geo)
                                except model.Unsupported:
                                    continue
                                n_pert += 1
                                try:
                                    mm2 = runner.quiet(sp.sample_mismatch_experiment, block, {g_: list(s2[g_]) for g_ in names})
                                except Exception as e:
                                    mm2 = {"exception": [type(e).__name__, str(e)[:200]]}
                                if c2 == model.INVALID and not mm2:
                                    out.setdefault("mismatch", {}).setdefault("n_false_accept", 0)
                                    out["mismatch"]["n_false_accept"] += 1
                                    if len(fa) < 3:
                                        fa.append({g_: list(s2[g_]) for g_ in names})
                                if c2 == model.VALID and mm2:
                                    out.setdefault("mismatch", {}).setdefault("n_false_reject", 0)
                                    out["mismatch"]["n_false_reject"] += 1
                                    if len(fr) < 3:
                                        fr.append([{g_: list(s2[g_]) for g_ in names}, {k_: str(v)[:200] for k_, v in mm2.items()}])
            mmr = out.setdefault("mismatch", {})
            mmr.update(n_seq=min(n_seq, lim), n_valid=n_valid, false_accept=fa, false_reject=fr, exhaustive=n_seq <= lim, n_perturbed=n_pert)
        except model.Unsupported as e:
            out["mismatch"] = dict(unsupported=str(e))
        except Exception as e:
            out["mismatch"] = dict(exception=[type(e).__name__, str(e)[:300], traceback.format_exc()[-2000:]])
    if "random_metrics" in want:
        try:
            from sweetpea._internal.sampling_strategy.random import RandomGen
            res = runner.quiet(RandomGen.sample, block, opts.get("n", 3000))
            m = res.metrics
            out["random_metrics"] = dict(solution_count=m.get("solution_count"), total_rejected=m.get("total_rejected"), n=len(res.samples))
        except Exception as e:
            out["random_metrics"] = dict(exception=[type(e).__name__, str(e)[:300]])
    if "counts" in want:
        # C09: requested vs returned for several n
        rec = {}
        for strat in opts.get("count_strategies", ("IterateSATGen", "RandomGen", "IterateGen")):
            try:
                full = runner.synth(block, opts.get("n", 3000), strat)
                avail = len(full)
                rows = []
                for n_req in sorted({0, 1, max(avail - 1, 0), avail, avail + 3}):
                    try:
                        got = runner.synth(block, n_req, strat)
                    except Exception as e:        # the exhausting call above succeeded: a failure for one requested count is this row's finding
                        rows.append(dict(requested=n_req, raised=[type(e).__name__, str(e)[:200]]))
                        continue
                    keys = [key_of_exp(e, names) for e in got]
                    rows.append(dict(requested=n_req, returned=len(got), keys=keys if len(keys) <= 400 else None, distinct=len(set(keys))))
                rec[strat] = dict(available=avail, rows=rows, full_keys=[key_of_exp(e, names) for e in full] if avail <= 3000 else None)
            except Exception as e:
                rec[strat] = dict(exception=[type(e).__name__, str(e)[:300]])
        out["counts"] = rec
    out["secs"] = round(time.time() - t0, 2)
    return out


def run(ds, want, opts=None, jobs=14, timeout=45):
    args = [(d, tuple(want), opts or {}) for d in ds]
    res = runner.pmap(evaluate, args, jobs=jobs, timeout=timeout)
    out = []
    for d, (st, r) in zip(ds, res):
        if st == "ok":
            out.append(r)
        elif st == "timeout":
            out.append({"name": d["name"], "tags": d["tags"], "timeout": r})
        else:
            out.append({"name": d["name"], "tags": d["tags"], "worker_error": list(r)})
    return out


def design_replay(d, **extra):
    return dict(replay_kind="design", design=d, **extra)


def feature_class(d):
    """coarse, feature-based class of a design used in known-finding keys (so that a finding is tied to the construction
    that triggers it, not to a design's name)"""
    feats = []
    fm = model.factor_map(d)

    def walk(node, under=None):
        k = node["kind"]
        for c in node.get("constraints", []):
            f = c[2] if c[0] in ("AtMostKInARow", "AtLeastKInARow", "ExactlyKInARow", "ExactlyK", "Pin") else (c[1] if c[0] in ("Exclude", "Sequential") else None)
            F = fm.get(f) if isinstance(f, str) else None
            if F is not None and model.is_derived(F):
                dv = F["derive"]
                if dv["stride"] > 1 and c[0] in ("AtMostKInARow", "AtLeastKInARow", "ExactlyKInARow"):
                    feats.append("run-length-on-strided-factor")
                if c[0] == "Pin":
                    feats.append("pin-on-derived")
                if under in ("repeat", "merge", "nest") and (dv["width"] > 1 or dv["stride"] > 1 or (dv["start"] or 0) > 0):
                    feats.append("windowed-constraint-on-complex-factor")
            if c[0] == "Sequential" and under == "nest-outer":
                feats.append("sequential-under-nest")
        if k == "repeat":
            walk(node["block"], "repeat")
        elif k == "merge":
            for b in node["blocks"]:
                walk(b, "merge")
        elif k == "nest":
            walk(node["outer"], "nest-outer")
            walk(node["inner"], "nest")
    walk(d["block"])
    # a crossed derived factor that depends on a derived factor, or on a weighted factor outside some crossing (which the
    # library replaces by a hidden derived factor)
    def crossings(node):
        k = node["kind"]
        if k == "cross":
            return [node["crossing"]]
        if k == "multi":
            return node["crossings"]
        if k == "repeat":
            return crossings(node["block"])
        if k == "merge":
            return [c for b in node["blocks"] for c in crossings(b)]
        return crossings(node["outer"]) + crossings(node["inner"])
    cs = crossings(d["block"])
    for c in cs:
        for f in c:
            F = fm[f]
            if model.is_derived(F):
                for g in F["derive"]["deps"]:
                    G = fm[g]
                    if model.is_derived(G) or (any(w > 1 for _, w in G["levels"]) and not all(g in c2 for c2 in cs)):
                        feats.append("crossed-derived-depends-on-derived")
    # a crossed within-trial derived factor with a source outside the crossing, in a block whose trial count is raised by MinimumTrials (a partial last
    # run draws a subset of the crossing's combinations; the numbers of completions of the combinations can differ)
    def has_min(node):
        if any(c[0] == "MinimumTrials" for c in node.get("constraints", [])):
            return True
        k = node["kind"]
        subs = [node["block"]] if k == "repeat" else node.get("blocks", []) if k == "merge" else [node["outer"], node["inner"]] if k == "nest" else []
        return any(has_min(b) for b in subs)
    if has_min(d["block"]):
        for c in cs:
            for f in c:
                F = fm[f]
                if model.is_derived(F) and F["derive"]["width"] == 1 and any(g not in c for g in F["derive"]["deps"]):
                    feats.append("partial-run+crossed-within-derived-with-uncrossed-source")
    return sorted(set(feats))
