"""C18 — reusing factor and constraint objects across blocks does not change meaning (cross_block.py, constraint.py)."""
import itertools

from pyvc.report import Check, run_check, seed
from checks import sys_common as SC
from spec import model, runner, designs as DS


def families():
    c2, d2, e3, g2 = DS.fac("c", DS.A2), DS.fac("d", ["x", "y"]), DS.fac("e", DS.A3), DS.fac("g", ["u", "v"])
    facs = [c2, d2, e3, g2]
    out = []
    for ct in (["AtMostKInARow", 1, "d", "x"], ["AtLeastKInARow", 2, "d", "x"], ["ExactlyK", 1, "d", "x"], ["Pin", -1, "d", "x"], ["ExactlyKInARow", 1, "d", "x"]):
        tag = ct[0]
        out.append((f"{tag}:cross3-then-repeat2", facs, [DS.cross(["e", "d"], ["e"], [ct]),
                                                          DS.repeat(DS.cross(["c", "d"], ["c"], [ct]), [["MinimumTrials", 4]])]))
        out.append((f"{tag}:two-crosses", facs, [DS.cross(["e", "d"], ["e"], [ct]), DS.cross(["c", "d"], ["c"], [ct])]))
        out.append((f"{tag}:cross-then-nest-inner", facs, [DS.cross(["e", "d"], ["e"], [ct]),
                                                            DS.nest(DS.cross(["c"], ["c"]), DS.cross(["g", "d"], ["g"], [ct]))]))
        out.append((f"{tag}:repeat-then-merge", facs, [DS.repeat(DS.cross(["c", "d"], ["c"], [ct]), [["MinimumTrials", 6]]),
                                                        DS.merge([DS.cross(["e", "d"], ["e"], [ct]), DS.cross(["g"], ["g"])])]))
        out.append((f"{tag}:three-blocks", facs, [DS.cross(["c", "d"], ["c"], [ct]), DS.cross(["e", "d"], ["e"], [ct]),
                                                   DS.repeat(DS.cross(["g", "d"], ["g"], [ct]), [["MinimumTrials", 4]])]))
        # Merge / Nest called the way the documentation shows them, without a constraints argument, after a combinator whose members carry
        # the constraint: every later call must still mean "no constraints"
        out.append((f"{tag}:merge-then-plain-merge", facs, [DS.merge([DS.cross(["e", "d"], ["e"], [ct]), DS.cross(["g"], ["g"])]),
                                                             DS.merge([DS.cross(["c", "d"], ["c"]), DS.cross(["g"], ["g"])])]))
        out.append((f"{tag}:nest-then-plain-nest", facs, [DS.nest(DS.cross(["c"], ["c"]), DS.cross(["g", "d"], ["g"], [ct])),
                                                           DS.nest(DS.cross(["g"], ["g"]), DS.cross(["c", "d"], ["c"]))]))
        out.append((f"{tag}:merge-with-list-then-cross", facs, [DS.merge([DS.cross(["e", "d"], ["e"], [ct]), DS.cross(["g"], ["g"])], [["MinimumTrials", 4]]),
                                                                 DS.repeat(DS.cross(["c", "d"], ["c"]), [["MinimumTrials", 4]])]))
    # a MinimumTrials object given to a block that becomes the OUTER block of a Nest (its count is scaled there) and to another block
    mt = ["MinimumTrials", 4]
    out.append(("MinimumTrials:nest-outer-then-cross", facs, [DS.nest(DS.cross(["c"], ["c"], [mt]), DS.cross(["g"], ["g"])), DS.cross(["d"], ["d"], [mt])]))
    out.append(("MinimumTrials:nest-outer-then-repeat", facs, [DS.nest(DS.cross(["c"], ["c"], [mt]), DS.cross(["g"], ["g"])), DS.repeat(DS.cross(["d"], ["d"]), [mt])]))
    out.append(("MinimumTrials:nest-then-nest", facs, [DS.nest(DS.cross(["c"], ["c"], [mt]), DS.cross(["g"], ["g"])), DS.nest(DS.cross(["d"], ["d"], [mt]), DS.cross(["g"], ["g"]))]))
    # factors only (no shared constraint): weighted / derived factors reused
    tr = DS.transition_rep("t", "c", DS.A2)
    wd = DS.fac("d", [["x", 2], ["y", 1]])
    out.append(("factors:transition-reused", [c2, d2, e3, tr], [DS.cross(["c", "t"], ["c", "t"]), DS.cross(["c", "d", "t"], ["c", "d"]), DS.repeat(DS.cross(["c", "t"], ["c"]), [["MinimumTrials", 5]])]))
    out.append(("factors:weighted-reused", [c2, wd, e3], [DS.cross(["c", "d"], ["c"]), DS.cross(["c", "d"], ["c", "d"]), DS.cross(["e", "d"], ["e"])]))
    # a constraint on one level of a weighted factor outside the crossing (the level is replaced when weights are desugared) shared by a block and a Repeat
    wct = ["AtMostKInARow", 1, "d", "x"]
    out.append(("AtMostKInARow:weighted-uncrossed-cross-then-repeat", [c2, wd, e3], [DS.cross(["c", "d"], ["c"], [wct]),
                                                                                      DS.repeat(DS.cross(["c", "d"], ["c"], [wct]), [["MinimumTrials", 4]])]))
    return out


def _facts(block, d):
    import sweetpea as sp
    names = SC.user_factors(d)
    res = runner.synth(block, 4000, "IterateSATGen")
    keys = sorted(set(SC.key_of_exp(e, names) for e in res))
    # mismatch verdicts on the solutions and on single-trial perturbations of the first few
    verdicts = []
    probes = [dict(e) for e in res[:6]]
    for e in res[:3]:
        for f in names:
            for t in range(len(e[f])):
                e2 = {k: list(v) for k, v in e.items()}
                others = [x for x in set(e[f]) if x != e[f][t] and x != ""]
                if others and e[f][t] != "":
                    e2[f][t] = sorted(others)[0]
                    probes.append(e2)
    for e in probes[:40]:
        try:
            verdicts.append(sorted(runner.quiet(sp.sample_mismatch_experiment, block, e).keys()))
        except Exception as ex:
            verdicts.append(["EXC:" + type(ex).__name__])
    return dict(T=block.trials_per_sample(), keys=keys, probes=[SC.key_of_exp(e, names) for e in probes[:40]], verdicts=verdicts)


def _fresh(arg):
    """facts of ONE block built from fresh, unshared objects in a process of its own (nothing built before it)"""
    name, facs, blocks, i = arg
    d = DS.D(f"{name}#{i}", facs, blocks[i])
    try:
        block, objs = model.build(d)
        out = _facts(block, d)
        out["frame"] = objs.get("frame", [])
        return out
    except Exception as e:
        import traceback
        return {"exception": [type(e).__name__, str(e)[:300], traceback.format_exc()[-1500:]]}


def _eval(arg):
    name, facs, blocks, order, fresh = arg
    out = {"name": name, "order": list(order)}
    descs = [DS.D(f"{name}#{i}", facs, b) for i, b in enumerate(blocks)]
    try:
        objs = {"factors": {}, "constraints": {}, "share_constraints_by_value": True, "share_lists": True}
        built = {}
        for i in order:
            built[i], _ = model.build(descs[i], shared=objs)
        out["frame"] = objs.get("frame", [])
        shared = {i: _facts(built[i], descs[i]) for i in order}
        diffs = []
        for i in order:
            a, b = fresh[i], shared[i]
            if a["T"] != b["T"] or a["keys"] != b["keys"]:
                diffs.append(dict(block=i, kind="solutions", fresh=[a["T"], len(a["keys"])], shared=[b["T"], len(b["keys"])],
                                  example=(dict(sorted(set(a["keys"]) ^ set(b["keys"]))[0]) if set(a["keys"]) ^ set(b["keys"]) else None)))
            else:
                import sweetpea as sp2
                # verdicts are compared on the same probe sequences: the fresh block's probes re-evaluated on the shared block
                for k, want in zip(a["probes"], a["verdicts"]):
                    got = sorted(runner.quiet(sp2.sample_mismatch_experiment, built[i], {f: list(v) for f, v in k}).keys())
                    if got != want:
                        diffs.append(dict(block=i, kind="mismatch-verdict", sequence=dict(k), fresh=want, shared=got))
                        break
        out["diffs"] = diffs
    except Exception as e:
        import traceback
        out["exception"] = [type(e).__name__, str(e)[:300], traceback.format_exc()[-1500:]]
    return out


def main(tier):
    ck = Check("C18", tier, "exploration",
               "Histories of block constructions that share factor and constraint objects: for each family of 2-3 blocks (CrossBlock, Repeat, Merge, Nest) and "
               "every construction order, each block built from the shared objects must have the same trial count, the same exhausted IterateSATGen solution "
               "set and the same sample_mismatch_experiment verdicts (on its solutions and single-trial perturbations) as when built from fresh objects in a "
               "process of its own. Shared are factor objects, constraint objects and the constraint lists themselves; Merge/Nest are called without a constraints "
               "argument where there is none. The constructors' frame condition (caller's lists and default argument values untouched) is monitored and attached "
               "to any violation as the mechanism.")
    fams = families()
    # stage 1: every block of every family from fresh objects, each in a process of its own
    fargs = [(name, facs, blocks, i) for name, facs, blocks in fams for i in range(len(blocks))]
    fres = runner.pmap(_fresh, fargs, jobs=14, timeout=90)
    fresh = {}
    for (name, facs, blocks, i), (st, r) in zip(fargs, fres):
        fresh[(name, i)] = r if st == "ok" and "exception" not in r else None
        if st == "ok" and r.get("frame"):
            ck.extra.setdefault("frame_notes", []).append([name, i, r["frame"][:3]])
    # stage 2: every construction order with shared factor objects, constraint objects and constraint lists
    args = []
    for name, facs, blocks in fams:
        fr = {i: fresh[(name, i)] for i in range(len(blocks))}
        if any(v is None for v in fr.values()):
            ck.oblig(f"C18.fresh({name})", "E", "undecided", detail="a block of this family could not be built / enumerated from fresh objects")
            continue
        for order in itertools.permutations(range(len(blocks))):
            args.append((name, facs, blocks, order, fr))
    res = runner.pmap(_eval, args, jobs=14, timeout=90)
    args = [a[:4] for a in args]
    for (name, facs, blocks, order), (st, r) in zip(args, res):
        oid = f"C18.order({name},{''.join(map(str, order))})"
        if st != "ok":
            ck.oblig(oid, "E", "undecided", detail=f"worker {st}")
            continue
        if "exception" in r:
            ck.oblig(oid, "E", "undecided", detail=str(r["exception"][:2]))
            ck.extra.setdefault("exceptions", []).append([name, list(order), r["exception"][:2]])
            continue
        ck.count((name, order))
        ok = not r["diffs"]
        ck.oblig(oid, "E", "passed" if ok else "failed", detail=None if ok else str(r["diffs"][0])[:300])
        if not ok:
            dfr = r["diffs"][0]
            ck.violation("C18.order", f"{name}:order={''.join(map(str, order))}:block={dfr['block']}:{dfr['kind']}",
                         f"family {name}, construction order {list(order)}: block #{dfr['block']} differs from its fresh build ({dfr['kind']}): {str(dfr)[:300]}",
                         dict(replay_kind="family", family=name, factors=facs, blocks=blocks, order=list(order), diff=dfr, frame_breaches=r.get("frame", [])[:4]),
                         tags=dict(kind=dfr["kind"], family=name.split(":")[1] if ":" in name else name, constraint=name.split(":")[0], first_block=order[0]))
        if r.get("frame"):
            ck.extra.setdefault("frame_notes", []).append([name, list(order), r["frame"][:3]])
        ck.sample(dict(family=name, order=list(order), blocks=len(blocks)))
    ck.rule = "one case per (family, construction order); families: a constraint object of each window-scoped class shared between blocks of different geometry, shared transition / weighted factors"
    ck.trust("CPython", "pycryptosat")
    ck.assume("sharing is by object identity of factors and of constraints with equal arguments")
    return ck.finish()


if __name__ == "__main__":
    run_check(main)
