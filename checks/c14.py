"""C14 — trial/factor/level variables are allocated and decoded consistently (block.py, sampling_strategy/base.py)."""
import itertools
import random
import time

import z3

from pyvc.report import Check, run_check, seed
from pyvc.smt import prove, budget_ms
from checks import sys_common as SC
from checks.wp_common import run_wp
from spec import model, runner


def _eval(arg):
    d, sd = arg
    out = {"name": d["name"], "fails": []}
    try:
        block, _ = model.build(d)
    except Exception as e:
        out["build_error"] = str(e)[:100]
        return out
    from sweetpea._internal.sampling_strategy.base import Gen
    from sweetpea._internal.primitive import DerivedFactor
    rng = random.Random(sd)
    T = block.trials_per_sample()
    vps = block.variables_per_sample()
    vpt = block.variables_per_trial()
    grid = block.grid_variables()
    act = list(block.act_design)
    simple = [f for f in act if not f.has_complex_window]
    cplx = [f for f in act if f.has_complex_window]
    seen = {}
    fails = out["fails"]

    def applies(f, t):   # t 1-based
        return f.applies_to_trial((t - 1) // block.sustain_count(f) + 1)
    # query the cached counter in random order first (C14.prev_count independent of cache contents)
    pairs = [(f, t) for f in act for t in range(1, T + 1)]
    rng.shuffle(pairs)
    for f, t in pairs[:40]:
        want = sum(1 for u in range(1, t) if applies(f, u))
        got = block._get_previous_trials_variable_count(f, t)
        if got != want:
            fails.append(("prev_count", f"{f.name} t={t}: {got} != {want}"))
    n_choices = 0
    for t in range(1, T + 1):
        for f in act:
            if not applies(f, t):
                continue
            cnt = sum(1 for u in range(1, t) if applies(f, u))
            vars_t = []
            for li, l in enumerate(f.levels):
                v = block._encode_variable(f, l, t)
                n_choices += 1
                # closed-form layout
                if f in simple:
                    idx = sum(len(g.levels) for g in simple[:simple.index(f)]) + li
                    want = 1 + idx + vpt * cnt if False else 1 + idx + vpt * (t - 1)
                else:
                    off = sum(block.variables_for_factor(g) for g in cplx[:cplx.index(f)])
                    want = 1 + grid + off + li + len(f.levels) * cnt
                if v != want:
                    fails.append(("layout", f"({t},{f.name},{l.name}) -> {v}, closed form {want}"))
                if not (1 <= v <= vps):
                    fails.append(("range", f"({t},{f.name},{l.name}) -> {v} outside [1,{vps}]"))
                if v in seen:
                    fails.append(("injective", f"({t},{f.name},{l.name}) and {seen[v]} share variable {v}"))
                seen[v] = (t, str(f.name), str(l.name))
                dec = block.decode_variable(v)
                if dec[0] is not f or dec[1] is not l:
                    fails.append(("decode_variable", f"decode_variable({v}) = ({dec[0].name},{dec[1].name}), encoded ({f.name},{l.name})"))
                if (f, l) not in block.exclude:
                    vars_t.append(v)
            if block.factor_variables_for_trial(f, t) != vars_t:
                fails.append(("factor_variables_for_trial", f"({t},{f.name}): {block.factor_variables_for_trial(f, t)} != {vars_t}"))
    if len(seen) != vps:
        fails.append(("count", f"{len(seen)} (trial,factor,level) choices but variables_per_sample() = {vps}"))
    # auxiliary ids above all of them
    try:
        br = block.build_backend_request()
        ids = set()
        def walk(x):
            if isinstance(x, int):
                ids.add(abs(x))
            elif isinstance(x, (list, tuple)):
                for y in x:
                    walk(y)
        for c in br.get_cnfs_as_json():
            walk(c)
        for rq in br.ll_requests:
            walk(rq.variables)
        if br.fresh <= max(ids | {vps}):
            fails.append(("aux", f"fresh counter {br.fresh} not above the largest id {max(ids | {vps})}"))
        out["aux_ids"] = len([i for i in ids if i > vps])
    except Exception as e:
        out["compile_error"] = str(e)[:100]
    # decoding of one-hot assignments
    slots = [(t, f) for t in range(1, T + 1) for f in act if applies(f, t)]
    total = 1
    for t, f in slots:
        total *= len(f.levels)
        if total > 5000:
            break
    n_dec = 0
    def one(choice):
        sol = []
        for (t, f), li in zip(slots, choice):
            for lj, l in enumerate(f.levels):
                v = block._encode_variable(f, l, t)
                sol.append(v if lj == li else -v)
        e = Gen.decode(block, sol)
        for f in act:
            want = []
            it = {(t, g): li for (t, g), li in zip(slots, choice)}
            for t in range(1, T + 1):
                want.append(f.levels[it[(t, f)]].name if (t, f) in it else "")
            if list(e.get(f.name, [])) != want:
                return f"factor {f.name}: decoded {e.get(f.name)} expected {want}"
        return None
    if total <= 5000:
        for choice in itertools.product(*[range(len(f.levels)) for _, f in slots]):
            n_dec += 1
            r = one(choice)
            if r:
                fails.append(("decode", r))
                break
    else:
        for _ in range(300):
            n_dec += 1
            r = one([rng.randrange(len(f.levels)) for _, f in slots])
            if r:
                fails.append(("decode", r))
                break
    out.update(T=T, vps=vps, choices=n_choices, decoded=n_dec, exhaustive_decode=total <= 5000)
    out["fails"] = fails[:6]
    return out


def layout_lemmas(ck, ms):
    """the closed-form layout is injective and ranged (arithmetic lemma over symbolic geometry)"""
    vpt, i1, i2, t1, t2, T = z3.Ints("vpt i1 i2 t1 t2 T")
    hyp = [vpt >= 1, 0 <= i1, i1 < vpt, 0 <= i2, i2 < vpt, 1 <= t1, t1 <= T, 1 <= t2, t2 <= T]
    v1, v2 = 1 + i1 + vpt * (t1 - 1), 1 + i2 + vpt * (t2 - 1)
    for oid, goal in (("C14.lemma.simple_layout.injective", z3.Implies(v1 == v2, z3.And(i1 == i2, t1 == t2))),
                      ("C14.lemma.simple_layout.ranged", z3.And(1 <= v1, v1 <= vpt * T))):
        verdict, m, dt, be = prove(hyp, goal, ms)
        ck.oblig(oid, "P", verdict, be, dt, "grid variables: v = 1 + idx + vpt*(t-1)")
    n, l1, l2, c1, c2, base, C = z3.Ints("n l1 l2 c1 c2 base C")
    hyp = [n >= 1, 0 <= l1, l1 < n, 0 <= l2, l2 < n, 0 <= c1, c1 < C, 0 <= c2, c2 < C, base >= 0]
    w1, w2 = 1 + base + l1 + n * c1, 1 + base + l2 + n * c2
    for oid, goal in (("C14.lemma.complex_layout.injective", z3.Implies(w1 == w2, z3.And(l1 == l2, c1 == c2))),
                      ("C14.lemma.complex_layout.ranged", z3.And(base < w1, w1 <= base + n * C))):
        verdict, m, dt, be = prove(hyp, goal, ms)
        ck.oblig(oid, "P", verdict, be, dt, "complex-window variables: v = 1 + base + level + |levels| * (number of earlier applicable trials)")


def main(tier):
    ck = Check("C14", tier, "other",
               "Variable allocation and decoding over the designs of D: every (trial, factor, level) choice is encoded by the real _encode_variable; the result "
               "must equal an independently computed closed-form layout, be distinct for distinct choices, lie in [1, variables_per_sample], be inverted by "
               "decode_variable, agree with factor_variables_for_trial and the cached previous-trial counter in any query order; auxiliary ids of the compiled "
               "request must lie above; Gen.decode of every one-hot assignment (all of them when <= 5000, else 300 seeded) must report exactly those levels "
               "and '' where a factor does not apply. Proved: the closed-form layouts are injective and ranged for all geometries (z3, nonlinear), and "
               "applies_to_trial (pyvc.wp).")
    ck.under_contract(*["sweetpea._internal.block:Block." + n for n in ("_encode_variable", "decode_variable", "first_variable_for_level", "factor_variables_for_trial",
                                                                          "_get_previous_trials_variable_count", "variables_for_factor", "variables_per_sample")],
                      "sweetpea._internal.sampling_strategy.base:Gen.decode")
    layout_lemmas(ck, budget_ms(tier))
    run_wp(ck, ["applies_to_trial", "previous_trials_variable_count"], budget_ms(tier), prefix="C14.")
    ds = SC.design_space(tier, seed(), random_n=40 if tier == "quick" else 500)
    res = runner.pmap(_eval, [(d, seed()) for d in ds], jobs=14, timeout=60)
    for d, (st, r) in zip(ds, res):
        if st != "ok":
            ck.oblig(f"C14.alloc({d['name']})", "E", "undecided", detail=f"worker {st}: {str(r)[:200]}")
            continue
        if "build_error" in r:
            ck.count(r["name"], nontrivial=False)
            continue
        ck.count(r["name"])
        ok = not r["fails"]
        ck.oblig(f"C14.alloc({r['name']})", "E", "passed" if ok else "failed", detail=None if ok else str(r["fails"][:2]))
        if not ok:
            kind, what = r["fails"][0]
            ck.violation(f"C14.{kind}", f"{kind}:{r['name']}", f"design {r['name']}: {what}", SC.design_replay(d, strategy="alloc", failures=r["fails"]),
                         tags=dict(kind=kind, features=SC.feature_class(d)))
        ck.sample(dict(design=r["name"], T=r.get("T"), variables=r.get("vps"), choices=r.get("choices"), one_hot_assignments_decoded=r.get("decoded")))
    ck.rule = "one case per design of D; per design every (trial, factor, level) choice and one-hot assignments as stated"
    ck.trust("z3 (layout lemmas)", "CPython")
    ck.assume("bounded design space D", "the closed-form layout is this check's reading of block.py; it is compared with, not taken from, the code")
    return ck.finish()


if __name__ == "__main__":
    run_check(main)
