"""Shared driver for the clause-builder contracts (C12, C10): symbolic verification per shape, native
replay of counterexamples on the real code, native cross-check of the engine on small shapes."""
from __future__ import annotations

import re
import time

from pyvc import native_cnf as N
from pyvc.builders import Harness, fmt_shape
from contracts.cnf import CONTRACTS

QUAL = "sweetpea._internal.core.cnf:CNF."
ASSERTS = ("assert_k_of_n", "assert_k_less_than_n", "assert_k_greater_than_n")


def native_inputs(name, shape, model=None):
    """-> (F, kwargs for the native checker) from a solver model, or default ids 1..n"""
    ids = (model or {}).get("ids") if isinstance(model, dict) else None

    def take(prefix, n, start):
        if ids:
            return [ids[f"{prefix}{i}"] for i in range(n)]
        return list(range(start, start + n))
    if name in ASSERTS:
        k, n = shape
        xs = take("x", n, 1)
        F = model["F"] if ids else n
        return F, dict(k=k, ids=xs)
    if name in ("half_adder",):
        lst = [ids["a"], ids["b"]] if ids else [1, 2]
    elif name in ("full_adder", "saturate_adder"):
        lst = ([ids["a"], ids["b"]] if ids else [1, 2]) + ([None] if shape == ("nocin",) else [ids["cin"] if ids else 3])
    elif name in ("ripple_carry", "ripple_saturate", "_make_same_length"):
        lst = [take("x", shape[0], 1), take("y", shape[1], 1 + shape[0])]
    elif name == "pop_count":
        lst = [take("x", shape[0], 1)]
    elif name == "_convert_to_negative_twos_complement":
        lst = [take("b", shape[0], 1)]
    else:
        raise KeyError(name)
    flat = [abs(i) for l in lst for i in (l if isinstance(l, list) else ([] if l is None else [l]))]
    F = model["F"] if ids else max(flat + [0])
    extra = ()
    if name == "ripple_saturate":
        extra = (shape[2],)
    if name == "pop_count":
        extra = (shape[1],)
    return F, dict(ids_lists=lst, extra=extra)


def native_check(name, shape, model=None):
    F, kw = native_inputs(name, shape, model)
    if name in ASSERTS:
        return N.check_assert(name, kw["k"], kw["ids"], F)
    return N.check_circuit(name, shape, kw["ids_lists"], F, kw["extra"])


def n_inputs(name, shape):
    if name in ASSERTS:
        return shape[1]
    if name in ("half_adder",):
        return 2
    if name in ("full_adder", "saturate_adder"):
        return 2 if shape == ("nocin",) else 3
    if name in ("ripple_carry", "ripple_saturate", "_make_same_length"):
        return shape[0] + shape[1]
    return shape[0]


def run_plan(ck, plan, ms, native_limit=11, prop_prefix=""):
    """plan: list of (contract name, shape).  Records obligations in ck, replays refutations natively."""
    h = Harness(CONTRACTS, ms=ms)
    n_native = 0
    plan = list(plan)
    attempted = set()
    qi = 0
    while qi < len(plan):
        name, shape = plan[qi]
        qi += 1
        if (name, shape) in attempted:
            continue
        attempted.add((name, shape))
        _one(ck, h, name, shape, prop_prefix, native_limit)
        # close the plan under "relied on": every callee contract instance used as a stub must be verified too
        for dep in sorted(h.relied.get((name, shape), ()), key=repr):
            if dep not in attempted and dep not in plan[qi:]:
                plan.append(dep)
    ck.extra["engine_stats"] = dict(h.stats)
    ck.extra["native_crosschecks"] = ck.extra.get("native_crosschecks", 0)
    ck.extra["relied_on_callee_contracts"] = sorted({f"{c}[{fmt_shape(s)}]" for v in h.relied.values() for (c, s) in v})[:80]
    ck.extra["shapes_verified"] = len(attempted)
    return h


def _one(ck, h, name, shape, prop_prefix, native_limit):
    n_native = 0
    if True:
        con = CONTRACTS[name]
        tier = "P" if con.loop_free else "S"
        verdicts = h.verify(name, shape)
        # fold explored paths into one obligation per kind
        folded: dict[str, list] = {}
        for v in verdicts:
            key = re.sub(r"/path\d+", "", v.oid)
            folded.setdefault(key, []).append(v)
        shape_failed = None
        for key, vs in folded.items():
            if any(v.status == "refuted" for v in vs):
                st = "refuted"
            elif all(v.status == "proved" for v in vs):
                st = "proved"
            else:
                st = "undecided"
            detail = next((v.detail for v in vs if v.status != "proved" and v.detail), None)
            ck.oblig(f"{prop_prefix}{key}", tier, st, vs[0].backend, sum(v.secs for v in vs), detail)
            if st == "refuted" and shape_failed is None:
                shape_failed = (key, next(v for v in vs if v.status == "refuted"))
        ck.count((name, shape))
        if len(ck.samples) < 8 and shape:
            ck.sample(dict(contract=name, shape=list(shape), obligations=[k.split("].")[-1] for k in folded]))
        if shape_failed is not None:
            key, v = shape_failed
            fail = None
            try:
                fail = native_check(name, shape, v.model if isinstance(v.model, dict) else None)
                if fail is None and n_inputs(name, shape) <= 14:
                    fail = native_check(name, shape, None)
            except Exception as e:
                fail = None
                ck.extra.setdefault("replay_errors", []).append(repr(e))
            what = f"{name} shape ({fmt_shape(shape)}): obligation {key.split('].')[-1]} refuted" + (f" — {v.detail}" if v.detail else "")
            ck.violation(key, f"{name}[{fmt_shape(shape)}]", what,
                         dict(function=QUAL + name, shape=list(shape), solver_model=v.model, detail=v.detail,
                              native_failure=fail, replay="pyvc.native_cnf: build the real CNF with these ids, solve under every input assignment"),
                         failing_input_found=fail is not None)
        elif n_inputs(name, shape) <= native_limit:
            # CPython cross-check of the engine (DESIGN 2.7) on the default ids
            t = time.time()
            fail = native_check(name, shape, None)
            n_native += 1
            ck.solver_s["pycryptosat"] += time.time() - t
            if fail is not None:
                ck.extra.setdefault("engine_disagreements", []).append(dict(contract=name, shape=list(shape), native=fail))
                ck.violation(f"{name}[{fmt_shape(shape)}].native", f"{name}[{fmt_shape(shape)}]",
                             f"{name} shape ({fmt_shape(shape)}) fails natively although every symbolic obligation was discharged (engine disagreement)",
                             dict(function=QUAL + name, shape=list(shape), native_failure=fail))
    ck.extra["native_crosschecks"] = ck.extra.get("native_crosschecks", 0) + n_native
