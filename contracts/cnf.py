"""Contracts for the clause builders of sweetpea/_internal/core/cnf.py (C12, C10, used by C01-C03).

Every contract talks about ids (z3 Int terms), the fresh counter F = old(_num_vars), and an arbitrary
truth assignment val: Int -> Bool.  L(t) is the meaning of literal t, b(t) = 1 if L(t) else 0,
be(ts) the big-endian value of a bit list, lsb(ts) the little-endian value.
Postconditions are taken from the property statements C12/C10 ("force their output variables to the
binary sum of the inputs (with the documented saturation of the top bit) and leave no other
freedom"; "satisfiable iff the number of true variables stands in that relation to k, and then the
extension is unique"), helper preconditions from the code and its call sites.
"""
from __future__ import annotations

import z3

from pyvc.builders import Contract
from pyvc.concolic import lit_sem

from sweetpea._internal.core.binary import int_to_binary


def L(val, t):
    return lit_sem(t, val)


def b(val, t):
    return z3.If(L(val, t), 1, 0)


def be(val, ts):
    n = len(ts)
    return z3.Sum(*[b(val, t) * (2 ** (n - 1 - i)) for i, t in enumerate(ts)]) if ts else z3.IntVal(0)


def lsb(val, ts):
    return z3.Sum(*[b(val, t) * (2 ** i) for i, t in enumerate(ts)]) if ts else z3.IntVal(0)


def lit_pre(F, ts, positive=False):
    out = []
    for t in ts:
        if positive:
            out += [t >= 1, t <= F]
        else:
            out += [t != 0, t <= F, -t <= F]
    return out


def syms(sym, prefix, n):
    return [sym(f"{prefix}{i}") for i in range(n)]


def maj(a, b_, c):
    return z3.Or(z3.And(a, b_), z3.And(a, c), z3.And(b_, c))


def xor3(a, b_, c):
    return z3.Xor(z3.Xor(a, b_), c)


CONTRACTS: dict[str, Contract] = {}

# --------------------------------------------------------------------------- gates (loop-free: tier P)
CONTRACTS["half_adder"] = Contract(
    name="half_adder", loop_free=True,
    shape_of=lambda a, b_: (),
    make_args=lambda shape, sym: [sym("a"), sym("b")],
    pre=lambda F, a: lit_pre(F, a),
    nfresh=lambda shape: 2,
    result=lambda F, a, shape: (F + 1, F + 2),
    facts=lambda val, F, a, res, shape: [val(F + 1) == z3.And(L(val, a[0]), L(val, a[1])),
                                         val(F + 2) == z3.Xor(L(val, a[0]), L(val, a[1])),
                                         2 * b(val, F + 1) + b(val, F + 2) == b(val, a[0]) + b(val, a[1])],
    defs=lambda val, F, a, res, shape: [(F + 1, z3.And(L(val, a[0]), L(val, a[1]))),
                                        (F + 2, z3.Xor(L(val, a[0]), L(val, a[1])))],
)


def _fa_defs(val, F, a, res, shape):
    A, B = L(val, a[0]), L(val, a[1])
    if shape == ("nocin",):
        return [(F + 1, z3.And(A, B)), (F + 2, z3.Xor(A, B))]
    Cn = L(val, a[2])
    return [(F + 1, maj(A, B, Cn)), (F + 2, xor3(A, B, Cn))]


CONTRACTS["full_adder"] = Contract(
    name="full_adder", loop_free=True,
    shape_of=lambda a, b_, cin: ("nocin",) if cin is None else ("cin",),
    make_args=lambda shape, sym: [sym("a"), sym("b"), None if shape == ("nocin",) else sym("cin")],
    pre=lambda F, a: lit_pre(F, [t for t in a if t is not None]),
    nfresh=lambda shape: 2,
    result=lambda F, a, shape: (F + 1, F + 2),
    facts=lambda val, F, a, res, shape: [val(i) == D for i, D in _fa_defs(val, F, a, res, shape)] + [
        2 * b(val, F + 1) + b(val, F + 2) == b(val, a[0]) + b(val, a[1]) + (b(val, a[2]) if a[2] is not None else 0)],
    defs=_fa_defs,
    uses=("half_adder",),
)


def _sat_defs(val, F, a, res, shape):
    A, B = L(val, a[0]), L(val, a[1])
    if shape == ("nocin",):
        return [(F + 1, z3.Or(A, B))]
    return [(F + 1, z3.Or(A, B, L(val, a[2])))]


CONTRACTS["saturate_adder"] = Contract(
    name="saturate_adder", loop_free=True,
    shape_of=lambda a, b_, cin: ("nocin",) if cin is None else ("cin",),
    make_args=lambda shape, sym: [sym("a"), sym("b"), None if shape == ("nocin",) else sym("cin")],
    pre=lambda F, a: lit_pre(F, [t for t in a if t is not None]),
    nfresh=lambda shape: 1,
    result=lambda F, a, shape: F + 1,
    facts=lambda val, F, a, res, shape: [val(i) == D for i, D in _sat_defs(val, F, a, res, shape)],
    defs=_sat_defs,
)

# --------------------------------------------------------------------------- ripple carry / saturate
# ripple_carry(xs, ys): len(xs) == len(ys) == Lw >= 1 (zip would silently truncate otherwise: precondition
# from the call sites, which always equalise lengths first).  Iteration i allocates c_i = F+2i+1, s_i = F+2i+2.
CONTRACTS["ripple_carry"] = Contract(
    name="ripple_carry",
    shape_of=lambda xs, ys: (len(xs), len(ys)),
    make_args=lambda shape, sym: [syms(sym, "x", shape[0]), syms(sym, "y", shape[1])],
    pre=lambda F, a: lit_pre(F, a[0] + a[1]) + [z3.BoolVal(len(a[0]) == len(a[1]) and len(a[0]) >= 1)],
    nfresh=lambda shape: 2 * shape[0],
    result=lambda F, a, shape: (F + 2 * shape[0] - 1, [F + 2 * (i + 1) for i in range(shape[0])]),
    facts=lambda val, F, a, res, shape: [
        lsb(val, res[1]) + (2 ** shape[0]) * b(val, res[0]) == be(val, a[0]) + be(val, a[1])],
    uses=("full_adder",),
)


def _rs_nfresh(shape):
    Lw, _, sat = shape
    return 2 * Lw if Lw < sat else 2 * Lw - 1


def _rs_result(F, a, shape):
    Lw, _, sat = shape
    if Lw < sat:
        # s_i = F+2i+2 (LSB first), carry of the last adder F+2Lw-1 appended, then reversed -> MSB first
        return [F + 2 * Lw - 1] + [F + 2 * (i + 1) for i in reversed(range(Lw))]
    # Lw == sat: the last (top) position is a saturate_adder allocating one id F+2(Lw-1)+1
    return [F + 2 * (Lw - 1) + 1] + [F + 2 * (i + 1) for i in reversed(range(Lw - 1))]


def _rs_facts(val, F, a, res, shape):
    Lw, _, sat = shape
    X, Y, R = be(val, a[0]), be(val, a[1]), be(val, res)
    if Lw < sat:
        return [R == X + Y]
    top = 2 ** (Lw - 1)
    # documented saturation of the top bit: exact below 2^(sat-1); otherwise top bit set and the low bits are (X+Y) mod 2^(sat-1)
    return [z3.If(X + Y < top, R == X + Y, z3.And(R >= top, (R - (X + Y)) % top == 0))]


CONTRACTS["ripple_saturate"] = Contract(
    name="ripple_saturate",
    shape_of=lambda xs, ys, sat: (len(xs), len(ys), sat),
    make_args=lambda shape, sym: [syms(sym, "x", shape[0]), syms(sym, "y", shape[1]), shape[2]],
    pre=lambda F, a: lit_pre(F, a[0] + a[1]) + [z3.BoolVal(len(a[0]) == len(a[1]) and 1 <= len(a[0]) <= a[2])],
    nfresh=_rs_nfresh,
    result=_rs_result,
    facts=_rs_facts,
    uses=("full_adder", "saturate_adder"),
)


# --------------------------------------------------------------------------- population count
def _pc_layers(n, sat):
    """(p, padding, [(pairs, L)] per layer): independent re-derivation of the circuit's shape."""
    p = 0
    while 2 ** p < n:
        p += 1
    pad = 2 ** p - n
    layers, width, Lw = [], 2 ** p, 1
    while width > 1:
        width //= 2
        layers.append((width, Lw))
        Lw = Lw + 1 if (sat == 0 or Lw < sat) else Lw
    return p, pad, layers, Lw


def _pc_nfresh(shape):
    n, sat = shape
    p, pad, layers, _ = _pc_layers(n, sat)
    tot = pad
    for pairs, Lw in layers:
        tot += pairs * (2 * Lw if (sat == 0 or Lw < sat) else 2 * Lw - 1)
    return tot


def _pc_result_len(shape):
    return _pc_layers(*shape)[3]


def _pc_facts(val, F, a, res, shape):
    n, sat = shape
    cnt = z3.Sum(*[b(val, t) for t in a[0]]) if len(a[0]) > 1 else b(val, a[0][0])
    R = be(val, res)
    if sat == 0 or len(res) < sat or n == 1:
        return [R == cnt]
    top = 2 ** (sat - 1)
    return [z3.If(cnt < top, R == cnt, R >= top)]


def _pc_result(F, a, shape):
    """MSB-first bits: the output of the last adder of the tree (or the single input itself)."""
    n, sat = shape
    if n == 1:
        return [a[0][0]]
    p, pad, layers, _ = _pc_layers(n, sat)
    pairs, Lw = layers[-1]
    full = (sat == 0 or Lw < sat)
    base = F + _pc_nfresh(shape) - (2 * Lw if full else 2 * Lw - 1)
    if full:
        return [base + 2 * Lw - 1] + [base + 2 * (i + 1) for i in reversed(range(Lw))]
    return [base + 2 * (Lw - 1) + 1] + [base + 2 * (i + 1) for i in reversed(range(Lw - 1))]


CONTRACTS["pop_count"] = Contract(
    name="pop_count",
    shape_of=lambda in_list, sat: (len(in_list), sat),
    make_args=lambda shape, sym: [syms(sym, "x", shape[0]), shape[1]],
    pre=lambda F, a: lit_pre(F, a[0], positive=True) + [z3.BoolVal(len(a[0]) >= 1 and a[1] >= 0)],
    nfresh=_pc_nfresh,
    result=_pc_result,
    facts=_pc_facts,
    uses=("ripple_saturate", "ripple_carry"),
)


# --------------------------------------------------------------------------- helpers of the inequality encoder
def _msl_nfresh(shape):
    lx, ly = shape
    return 0 if lx == ly else abs(lx - ly) + 2


def _msl_result(F, a, shape):
    """result = the two lists after the call (modified in place)"""
    lx, ly = shape
    xs, ys = a
    if lx == ly:
        return [list(xs), list(ys)]
    d = abs(lx - ly)
    pad = [F + i + 1 for i in range(d + 1)]
    one = [F + d + 2]
    if lx < ly:
        return [pad + list(xs), one + list(ys)]
    return [one + list(xs), pad + list(ys)]


CONTRACTS["_make_same_length"] = Contract(
    name="_make_same_length",
    shape_of=lambda xs, ys: (len(xs), len(ys)),
    make_args=lambda shape, sym: [syms(sym, "x", shape[0]), syms(sym, "y", shape[1])],
    pre=lambda F, a: lit_pre(F, a[0] + a[1], positive=True),
    nfresh=_msl_nfresh,
    result=_msl_result,            # compared with the argument lists after the call
    facts=lambda val, F, a, res, shape: [be(val, res[0]) == be(val, a[0]), be(val, res[1]) == be(val, a[1]),
                                         z3.BoolVal(len(res[0]) == len(res[1]))]
    + ([] if shape[0] == shape[1] else [z3.Not(val(res[0][0])), z3.Not(val(res[1][0]))]),
)
CONTRACTS["_make_same_length"].result_is_args_after = True


def _ntc_facts(val, F, a, res, shape):
    (Lw,) = shape
    X, R = be(val, a[0]), be(val, res)
    return [R == z3.If(X == 0, 0, (2 ** Lw) - X)]


CONTRACTS["_convert_to_negative_twos_complement"] = Contract(
    name="_convert_to_negative_twos_complement",
    shape_of=lambda bits: (len(bits),),
    make_args=lambda shape, sym: [syms(sym, "b", shape[0])],
    pre=lambda F, a: lit_pre(F, a[0], positive=True) + [z3.BoolVal(len(a[0]) >= 1)],
    nfresh=lambda shape: 4 * shape[0],
    # flipped F+1..F+L, one_vars F+L+1..F+2L, ripple_carry ids from F+2L: s_i = F+2L+2i+2 (LSB first), reversed
    result=lambda F, a, shape: [F + 2 * shape[0] + 2 * (i + 1) for i in reversed(range(shape[0]))],
    facts=_ntc_facts,
    uses=("ripple_carry",),
)


# --------------------------------------------------------------------------- cardinality assertions (C10)
def _count(val, ts):
    return z3.Sum(*[b(val, t) for t in ts]) if len(ts) > 1 else b(val, ts[0])


def _card_pre(F, a):
    ids = a[-1]
    out = lit_pre(F, ids, positive=True)
    if len(ids) > 1:
        out.append(z3.Distinct(*ids))
    out.append(z3.BoolVal(len(ids) >= 1 and a[-2] >= 0))
    return out


def _eq_nfresh(shape):
    k, n = shape
    return _pc_nfresh((n, len(int_to_binary(k)) + 1))


CONTRACTS["assert_k_of_n"] = Contract(
    name="assert_k_of_n",
    shape_of=lambda k, in_list: (k, len(in_list)),
    make_args=lambda shape, sym: [shape[0], syms(sym, "x", shape[1])],
    pre=_card_pre,
    nfresh=_eq_nfresh,
    result=lambda F, a, shape: None,
    facts=lambda val, F, a, res, shape: [],
    relation=lambda val, F, a, shape: _count(val, a[1]) == shape[0],
    uses=("pop_count",),
)


def _ineq_nfresh(shape):
    raise NotImplementedError   # determined by the run; see `nfresh_from_run`


for _name, _lt in (("assert_k_less_than_n", True), ("assert_k_greater_than_n", False)):
    CONTRACTS[_name] = Contract(
        name=_name,
        shape_of=lambda k, in_list: (k, len(in_list)),
        make_args=lambda shape, sym: [shape[0], syms(sym, "x", shape[1])],
        pre=_card_pre,
        nfresh=None,    # not fixed by the property: any number of auxiliaries, all of which must be defined (defs)
        result=lambda F, a, shape: None,
        facts=lambda val, F, a, res, shape: [],
        relation=(lambda val, F, a, shape: _count(val, a[1]) < shape[0]) if _lt
        else (lambda val, F, a, shape: _count(val, a[1]) > shape[0]),
        uses=("pop_count", "_convert_to_negative_twos_complement", "ripple_carry"),
    )
CONTRACTS["assert_k_of_n"].nfresh = None
