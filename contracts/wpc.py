"""Contracts for pyvc.wp (plain data).  Expressions are Python expressions over the parameters, `result`,
`old(...)`, ghost variables and the spec vocabulary forall/exists/sum/implies/iff/ite/pow2/is_none.
Loops are keyed by ordinal within the function (source order), never by line number."""

W = {}

# ------------------------------------------------------------------ core/binary.py (C10)
W["int_to_binary"] = dict(
    id="int_to_binary", target="sweetpea._internal.core.binary:int_to_binary", prop=["C10"],
    params={"value": "int"},
    requires=["value >= 0"],
    ghost={"P": ("int", "1")},
    loops={0: dict(
        invariant=["value >= 0", "P == pow2(len(output))",
                   "old(value) == value * P + sum(i, 0, len(output), ite(output[i] == 1, pow2(i), 0))",
                   "forall(i, 0, len(output), output[i] == 1 or output[i] == -1)",
                   "implies(value == 0 and len(output) > 0, output[len(output) - 1] == 1)",
                   "sum(i, 0, len(output), ite(output[i] == 1, pow2(i), 0)) >= 0",
                   "implies(len(output) > 0 and output[len(output) - 1] == 1, sum(i, 0, len(output), ite(output[i] == 1, pow2(i), 0)) >= 1)"],
        decreases="value",
        ghost_end=["P = P * 2"])},
    ensures=["forall(i, 0, len(result), result[i] == 1 or result[i] == -1)",
             "old(value) == sum(i, 0, len(result), ite(result[len(result) - 1 - i] == 1, pow2(i), 0))",
             "implies(old(value) > 0, len(result) > 0 and result[0] == 1)",
             "implies(old(value) == 0, len(result) == 0)"],
    native=dict(call=lambda f, value: f(value), domain=lambda: ({"value": v} for v in range(0, 300))),
)

# ------------------------------------------------------------------ combinatorics.py (C13)
import itertools as _it
import math as _math


def _prod(xs):
    p = 1
    for x in xs:
        p *= x
    return p


_RANK = "sum(j, 0, len(components), components[j] * W[j])"
W["extract_components"] = dict(
    id="extract_components", target="sweetpea._internal.combinatorics:extract_components", prop=["C13", "C05"],
    params={"sizes": "list[int]", "n": "int"},
    requires=["n >= 0", "forall(i, 0, len(sizes), sizes[i] >= 1)"],
    # ghost: P = product of the sizes consumed so far, W[j] = product of sizes[0..j) (the mixed-radix weight of digit j)
    ghost={"P": ("int", "1"), "W": ("list[int]", "[]")},
    loops={0: dict(
        index="i",
        invariant=["len(components) == i", "len(W) == i", "P >= 1", "n >= 0",
                   "old(n) == n * P + " + _RANK,
                   "0 <= " + _RANK, _RANK + " < P",
                   "forall(j, 0, i, 0 <= components[j] and components[j] < sizes[j])",
                   "implies(i > 0, W[0] == 1)", "forall(j, 0, i - 1, W[j + 1] == W[j] * sizes[j])",
                   "implies(i > 0, P == W[i - 1] * sizes[i - 1])", "implies(i == 0, P == 1)"],
        ghost_update=["W.append(P)"],
        ghost_end=["P = P * s"],
        hints=[_RANK + " == pre(" + _RANK + ") + (pre(n) % s) * pre(P)",
               "pre(n) == n * s + pre(n) % s", "n * P == n * s * pre(P)",
               "(pre(n) % s) * pre(P) >= 0", "(pre(n) % s) * pre(P) <= (s - 1) * pre(P)"])},
    ensures=["len(result) == len(sizes)",
             "forall(j, 0, len(sizes), 0 <= result[j] and result[j] < sizes[j])",
             # rank(result) + (n div prod) * prod == n  with W the mixed-radix weights and P = prod(sizes)
             "len(W) == len(sizes)", "implies(len(sizes) > 0, W[0] == 1)", "forall(j, 0, len(sizes) - 1, W[j + 1] == W[j] * sizes[j])",
             "implies(len(sizes) > 0, P == W[len(sizes) - 1] * sizes[len(sizes) - 1])", "implies(len(sizes) == 0, P == 1)",
             "old(n) == n * P + sum(j, 0, len(result), result[j] * W[j])",
             "0 <= sum(j, 0, len(result), result[j] * W[j])", "sum(j, 0, len(result), result[j] * W[j]) < P",
             "implies(old(n) < P, old(n) == sum(j, 0, len(result), result[j] * W[j]))"],
    native=dict(call=lambda f, sizes, n: f(list(sizes), n),
                domain=lambda: ({"sizes": list(s), "n": n} for L in range(0, 4) for s in _it.product([1, 2, 3], repeat=L) for n in range(0, 2 * _prod(s) + 2)),
                ghost_post=lambda res, sizes, n: {"W": [_prod(sizes[:j]) for j in range(len(sizes))], "P": _prod(sizes), "n": n // _prod(sizes)}),
)

# compute_jth_combination(l, n, j): digits base n, most significant first
_BEV = "sum(t, 0, l - 1 - k, combination[l - 1 - t] * Wn[t])"
W["compute_jth_combination"] = dict(
    id="compute_jth_combination", target="sweetpea._internal.combinatorics:compute_jth_combination", prop=["C13"],
    params={"l": "int", "n": "int", "j": "int"},
    requires=["l >= 0", "n >= 1", "j >= 0"],
    ghost={"P": ("int", "1"), "Wn": ("list[int]", "[]")},        # Wn[t] = n^t
    loops={0: dict(
        index="i",
        invariant=["len(combination) == l", "len(Wn) == i", "P >= 1", "j >= 0",
                   "forall(t, 0, i, Wn[t] >= 1)", "implies(i > 0, Wn[0] == 1)", "forall(t, 0, i - 1, Wn[t + 1] == Wn[t] * n)",
                   "implies(i > 0, P == Wn[i - 1] * n)", "implies(i == 0, P == 1)",
                   "old(j) == j * P + sum(t, 0, i, combination[l - 1 - t] * Wn[t])",
                   "0 <= sum(t, 0, i, combination[l - 1 - t] * Wn[t])", "sum(t, 0, i, combination[l - 1 - t] * Wn[t]) < P",
                   "forall(t, 0, i, 0 <= combination[l - 1 - t] and combination[l - 1 - t] < n)"],
        ghost_update=["Wn.append(P)"],
        ghost_end=["P = P * n"],
        hints=["k == l - i", "Wn[i - 1] == pre(P)", "P == pre(P) * n", "pre(j) == j * n + pre(j) % n",
               "(pre(j) % n) * pre(P) >= 0", "(pre(j) % n) * pre(P) <= (n - 1) * pre(P)", "j * P == j * n * pre(P)",
               "combination[l - i] == pre(j) % n",
               "sum(t, 0, i - 1, combination[l - 1 - t] * Wn[t]) == pre(sum(t, 0, i, combination[l - 1 - t] * Wn[t]))",
               "sum(t, 0, i, combination[l - 1 - t] * Wn[t]) == pre(sum(t, 0, i, combination[l - 1 - t] * Wn[t])) + (pre(j) % n) * pre(P)"])},
    ensures=["len(result) == l", "forall(t, 0, l, 0 <= result[t] and result[t] < n)",
             "len(Wn) == l", "implies(l > 0, Wn[0] == 1)", "forall(t, 0, l - 1, Wn[t + 1] == Wn[t] * n)",
             "implies(l > 0, P == Wn[l - 1] * n)", "implies(l == 0, P == 1)",
             "old(j) == j * P + sum(t, 0, l, result[l - 1 - t] * Wn[t])",
             "0 <= sum(t, 0, l, result[l - 1 - t] * Wn[t])", "sum(t, 0, l, result[l - 1 - t] * Wn[t]) < P",
             "implies(old(j) < P, old(j) == sum(t, 0, l, result[l - 1 - t] * Wn[t]))"],
    native=dict(call=lambda f, l, n, j: f(l, n, j),
                domain=lambda: ({"l": l, "n": n, "j": j} for l in range(0, 4) for n in range(1, 4) for j in range(0, 2 * n ** l + 2)),
                ghost_post=lambda res, l, n, j: {"Wn": [n ** t for t in range(l)], "P": n ** l, "j": j // (n ** l)}),
)

# compute_jth_inversion_sequence(n, m, j): falling-factorial radix n, n-1, ..., n-m+1
W["compute_jth_inversion_sequence"] = dict(
    id="compute_jth_inversion_sequence", target="sweetpea._internal.combinatorics:compute_jth_inversion_sequence", prop=["C13"],
    ms=30000,          # nonlinear invariant: nominally 0.4 s, but z3 answered `unknown` once with all 16 workers busy; a third of this budget per attempt
    params={"n": "int", "m": "int", "j": "int"},
    requires=["0 <= m", "m <= n", "j >= 0"],
    ghost={"P": ("int", "1"), "Wf": ("list[int]", "[]")},        # Wf[t] = n (n-1) ... (n-t+1)
    loops={0: dict(
        index="i",
        invariant=["len(inversion) == i", "len(Wf) == i", "P >= 1", "j >= 0", "i <= m",
                   "implies(i > 0, Wf[0] == 1)", "forall(t, 0, i - 1, Wf[t + 1] == Wf[t] * (n - t))",
                   "implies(i > 0, P == Wf[i - 1] * (n - (i - 1)))", "implies(i == 0, P == 1)",
                   "old(j) == j * P + sum(t, 0, i, inversion[t] * Wf[t])",
                   "0 <= sum(t, 0, i, inversion[t] * Wf[t])", "sum(t, 0, i, inversion[t] * Wf[t]) < P",
                   "forall(t, 0, i, 0 <= inversion[t] and inversion[t] < n - t)"],
        ghost_update=["Wf.append(P)"],
        ghost_end=["P = P * k"],
        hints=["k == n - (i - 1)", "Wf[i - 1] == pre(P)", "P == pre(P) * k",
               "implies(i > 1, Wf[i - 1] == Wf[i - 2] * (n - (i - 2)))",
               "(pre(j) % k) * pre(P) >= 0", "(pre(j) % k) * pre(P) <= (k - 1) * pre(P)", "j * P == j * k * pre(P)",
               "inversion[i - 1] == pre(j) % k",
               "sum(t, 0, i - 1, inversion[t] * Wf[t]) == pre(sum(t, 0, i, inversion[t] * Wf[t]))",
               "sum(t, 0, i, inversion[t] * Wf[t]) == pre(sum(t, 0, i, inversion[t] * Wf[t])) + (pre(j) % k) * pre(P)"])},
    ensures=["len(result) == m", "forall(t, 0, m, 0 <= result[t] and result[t] < n - t)",
             "len(Wf) == m", "implies(m > 0, Wf[0] == 1)", "forall(t, 0, m - 1, Wf[t + 1] == Wf[t] * (n - t))",
             "implies(m > 0, P == Wf[m - 1] * (n - (m - 1)))", "implies(m == 0, P == 1)",
             "old(j) == j * P + sum(t, 0, m, result[t] * Wf[t])",
             "0 <= sum(t, 0, m, result[t] * Wf[t])", "sum(t, 0, m, result[t] * Wf[t]) < P",
             "implies(old(j) < P, old(j) == sum(t, 0, m, result[t] * Wf[t]))"],
    native=dict(call=lambda f, n, m, j: f(n, m, j),
                domain=lambda: ({"n": n, "m": m, "j": j} for n in range(0, 5) for m in range(0, n + 1)
                                for j in range(0, 2 * (_math.factorial(n) // _math.factorial(n - m)) + 2)),
                ghost_post=lambda res, n, m, j: {"Wf": [_math.factorial(n) // _math.factorial(n - t) for t in range(m)],
                                                 "P": _math.factorial(n) // _math.factorial(n - m), "j": j // (_math.factorial(n) // _math.factorial(n - m))}),
)

# ------------------------------------------------------------------ geometry links (C26, C01, C08, C16)
import types as _types


def _mbtr_call(f, within_block, proc, T, PP, IS_POST):
    from sweetpea._internal.block import BlockGeometry
    from sweetpea._internal.cross_block import AlignmentMode
    stub = _types.SimpleNamespace(trials_per_sample=lambda: T, preamble_size=lambda: PP,
                                  alignment=AlignmentMode.POST_PREAMBLE if IS_POST else AlignmentMode.EQUAL_PREAMBLE)
    return f(stub, within_block, proc)


def _mbtr_domain():
    from sweetpea._internal.block import BlockGeometry
    proc = lambda s, e: s * 1000 + e
    for T in range(1, 9):
        yield dict(within_block=None, proc=proc, T=T, PP=0, IS_POST=False)
        for L in range(1, T + 1):
            for p in range(0, L):
                for IS_POST, PP in ((False, p), (True, p), (True, p + 1)):
                    yield dict(within_block=BlockGeometry(L, p, {}), proc=proc, T=T, PP=PP, IS_POST=IS_POST)


_S0 = "ite(IS_POST, PP - within_block.preamble_size, 0)"
_STEP = "(within_block.num_trials - within_block.preamble_size)"
W["map_block_trial_ranges"] = dict(
    id="map_block_trial_ranges", target="sweetpea._internal.cross_block:MultiCrossBlockRepeat.map_block_trial_ranges", prop=["C26", "C01", "C08"],
    params={"within_block": "opt[obj{num_trials:int,preamble_size:int}]", "proc": "fn(int,int)->int"},
    self_fields={"self.trials_per_sample()": ("T", "int"), "self.preamble_size()": ("PP", "int"),
                 "self.alignment == AlignmentMode.POST_PREAMBLE": ("IS_POST", "bool")},
    requires=["T >= 1", "0 <= PP", "PP < T",
              # geometry of a block that was combined: at least one non-preamble trial, fits in the sequence
              "implies(not is_none(within_block), within_block.preamble_size >= 0 and within_block.num_trials > within_block.preamble_size and within_block.num_trials <= T)",
              "implies(not is_none(within_block) and IS_POST, PP >= within_block.preamble_size)"],
    loops={0: dict(
        ghost_init=["s0 = start", "e0 = end"],
        invariant=["step >= 1", "start == s0 + len(lists) * step", "end == e0 + len(lists) * step",
                   "forall(j, 0, len(lists), lists[j] == proc(s0 + j * step, min(e0 + j * step, num_trials)))",
                   "implies(len(lists) > 0, start - step < num_trials - preamble)"],
        decreases="num_trials - preamble - start")},
    ensures=[
        # the windows that are enumerated (property level, C26): repetition j starts `step` trials after repetition j-1, the first one where the block's own
        # preamble begins, and every window has the block's FULL length num_trials (own preamble + one run), cut off at the end of the sequence.
        # (Until fix 887de88 the code ended window j at num_trials + j*step whatever the start, and this clause had been copied from the code — D36.)
        "implies(is_none(within_block), len(result) == 1 and result[0] == proc(0, T))",
        f"implies(not is_none(within_block), forall(j, 0, len(result), result[j] == proc({_S0} + j * {_STEP}, min({_S0} + within_block.num_trials + j * {_STEP}, T))))",
        # all non-preamble trials are covered by some window
        f"implies(not is_none(within_block), {_S0} + len(result) * {_STEP} >= T - within_block.preamble_size)",
        f"implies(not is_none(within_block), len(result) >= 1)",
        # property level (C26 / main.rst): every repetition window lies inside the trial sequence [0, T]
        f"implies(not is_none(within_block), forall(j, 0, len(result), 0 <= {_S0} + j * {_STEP} and {_S0} + j * {_STEP} < T - within_block.preamble_size and min({_S0} + within_block.num_trials + j * {_STEP}, T) <= T))",
    ],
    native=dict(call=_mbtr_call, domain=_mbtr_domain),
)


def _att_call(f, trial_number, IS_DERIVED, WIN):
    from sweetpea import Factor, DerivedLevel, WithinTrial, Window
    if not IS_DERIVED:
        return f(Factor("a", ["x", "y"]), trial_number)
    a = Factor("a", ["x", "y"])
    d = Factor("d", [DerivedLevel("p", Window(lambda *v: True, [a], 1, WIN.stride, WIN.start)),
                     DerivedLevel("q", Window(lambda *v: False, [a], 1, WIN.stride, WIN.start))])
    return f(d, trial_number)


W["applies_to_trial"] = dict(
    id="applies_to_trial", target="sweetpea._internal.primitive:Factor.applies_to_trial", prop=["C14", "C15", "C16"],
    params={"trial_number": "int"},
    self_fields={"isinstance(self, DerivedFactor)": ("IS_DERIVED", "bool"),
                 "self.first_level.window": ("WIN", "obj{start:int,stride:int}")},
    requires=["implies(IS_DERIVED, WIN.stride >= 1 and WIN.start >= 0)"],
    raises={"ValueError": "trial_number <= 0"},
    ensures=["trial_number >= 1",
             "implies(not IS_DERIVED, result == True)",
             # derivations.rst: `start` counts trials from 0; the factor applies to trial start, start+stride, ...
             "implies(IS_DERIVED and result, trial_number - 1 >= WIN.start and exists(m, 0, trial_number, trial_number - 1 == WIN.start + m * WIN.stride))",
             # (the converse direction is stated with the remainder: x mod s == 0 <=> exists m. x == m*s is the definition of
             #  divisibility; quantifying over m under a negation is nonlinear and was unstable in z3)
             "implies(IS_DERIVED and not result, trial_number - 1 < WIN.start or (trial_number - 1 - WIN.start) % WIN.stride != 0)"],
    native=dict(call=_att_call,
                domain=lambda: ({"trial_number": t, "IS_DERIVED": d, "WIN": _types.SimpleNamespace(start=s, stride=k)}
                                for t in range(-1, 12) for d in (False, True) for s in range(0, 4) for k in range(1, 4))),
)


def _trc_call(f, fobj, crossing_size, SC, START, STRIDE):
    stub = _types.SimpleNamespace(sustain_count=lambda _f: SC)
    fake = _types.SimpleNamespace(applies_to_trial=lambda u: u - 1 >= START and (u - 1 - START) % STRIDE == 0)
    return f(stub, fake, crossing_size)


_APPL = "ite(applies((j) // SC + 1), 1, 0)"
W["trials_required_for_crossing"] = dict(
    id="trials_required_for_crossing", target="sweetpea._internal.cross_block:MultiCrossBlockRepeat.__trials_required_for_crossing", prop=["C16"],
    params={"f": "obj", "crossing_size": "int"},
    self_fields={"self.sustain_count(f)": ("SC", "int")},
    spec_funcs={"applies": (["int"], "bool")},
    uses={"f.applies_to_trial": dict(params={"t": "int"}, requires=["t >= 1"], returns="bool", ensures=["result == applies(t)"])},
    requires=["crossing_size >= 0", "SC >= 1"],
    loops={0: dict(partial=True,
                   invariant=["trial >= 0", "0 <= counter", "counter <= crossing_size",
                              f"counter == sum(j, 0, trial, {_APPL})",
                              "implies(crossing_size == 0, trial == 0)",
                              "implies(trial > 0 and not applies((trial - 1) // SC + 1), counter != crossing_size)"])},
    ensures=["result >= 0",
             # the documented count: exactly `crossing_size` of the first `result` trials have a level of f ...
             f"sum(j, 0, result, {_APPL}) == crossing_size",
             "implies(crossing_size == 0, result == 0)",
             # ... and it is the smallest such number: the last of them is one of the counted trials
             "result == 0 or applies((result - 1) // SC + 1)"],
    native=dict(call=lambda fn, f, crossing_size, SC, START, STRIDE: _trc_call(fn, f, crossing_size, SC, START, STRIDE),
                spec_funcs_from=lambda f, crossing_size, SC, START, STRIDE: {"applies": (lambda u: u - 1 >= START and (u - 1 - START) % STRIDE == 0)},
                domain=lambda: ({"f": None, "crossing_size": n, "SC": sc, "START": st, "STRIDE": sr}
                                for n in range(0, 7) for sc in (1, 2, 3) for st in (0, 1, 2) for sr in (1, 2)),
                spec_funcs={}),
)


def _gtn_call(f, start, end, b_trial_no, sustain_count):
    """run the real nested get_variables through Block.get_trial_numbers with a stub block whose only window is [start, end)"""
    stub = _types.SimpleNamespace(sustain_count=lambda _f: sustain_count, map_block_trial_ranges=lambda wb, proc: [proc(start, end)])
    from sweetpea._internal.block import Block
    return Block.get_trial_numbers(stub, None, b_trial_no, None)


# Pin (constraints.rst): "a trial index, counting forward from 0 or backward from -1"; under Nest one index stands for a run of
# `sustain_count` trials.  The closure computes the trial numbers of one repetition window [start, end).
W["get_trial_numbers.window"] = dict(
    id="get_trial_numbers.window", target="sweetpea._internal.block:Block.get_trial_numbers.<get_variables>", prop=["C26", "C01"],
    params={"start": "int", "end": "int"},
    free_vars={"b_trial_no": "int", "sustain_count": "int"},
    requires=["0 <= start", "start <= end", "sustain_count >= 1"],
    ensures=[
        # forward index: trials start + c*idx ... start + c*idx + c-1, if the first of them lies inside the window
        "implies(b_trial_no >= 0 and start + sustain_count * b_trial_no < end, len(result) == sustain_count and forall(i, 0, sustain_count, result[i] == start + sustain_count * b_trial_no + i))",
        "implies(b_trial_no >= 0 and start + sustain_count * b_trial_no >= end, len(result) == 0)",
        # backward index: -1 is the last run of the window
        "implies(b_trial_no < 0 and end + sustain_count * b_trial_no >= start, len(result) == sustain_count and forall(i, 0, sustain_count, result[i] == end + sustain_count * b_trial_no + i))",
        "implies(b_trial_no < 0 and end + sustain_count * b_trial_no < start, len(result) == 0)",
        "forall(i, 0, len(result), start <= result[i])"],
    native=dict(call=lambda f, start, end, b_trial_no, sustain_count: _gtn_call(f, start, end, b_trial_no, sustain_count),
                domain=lambda: ({"start": s, "end": e, "b_trial_no": b, "sustain_count": c} for s in range(0, 4) for e in range(s, s + 7) for b in range(-7, 7) for c in (1, 2, 3))),
)

# ------------------------------------------------------------------ core/cnf.py: ripple_carry for every width (C12, used by C10)
# Variable ids are modelled as integers (Var(v) ~ v), the CNF's fresh counter as the ghost F, the truth assignment as an
# uninterpreted function val: Int -> Bool.  full_adder is used by contract only (its contract is proved on the real method
# for all inputs by the concolic engine: C12.full_adder.*): it returns (F+1, F+2), advances F by 2 and every assignment that
# satisfies the clauses it adds satisfies  2*[cout] + [s] == [a] + [b] + [cin].
_CNF_MACROS = {"L": (["t"], "ite(t > 0, val(t), not val(0 - t))"),
               "wbit": (["t", "j"], "ite(L(t), pow2(j), 0)"),
               "bit": (["t"], "ite(L(t), 1, 0)")}
_FULL_ADDER = dict(
    params={"a": "int", "b": "int", "cin": "opt[int]"}, ghost_args={"F": "F"},
    requires=["F >= 0", "a != 0", "abs(a) <= F", "b != 0", "abs(b) <= F", "is_none(cin) or (cin != 0 and abs(cin) <= F)"],
    returns="tuple[int,int]",
    ensures=["result[0] == F + 1", "result[1] == F + 2",
             "2 * bit(result[0]) + bit(result[1]) == bit(a) + bit(b) + ite(is_none(cin), 0, bit(cin))"],
    ghost_after=["F = F + 2"])
_RC_SUM = ("sum(j, 0, i, wbit(s_accum[j], j)) + ite(i > 0, wbit(cin, i), 0) == "
           "sum(j, 0, i, wbit(xs[len(xs) - 1 - j], j)) + sum(j, 0, i, wbit(ys[len(ys) - 1 - j], j))")
W["ripple_carry"] = dict(
    id="ripple_carry", target="sweetpea._internal.core.cnf:CNF.ripple_carry", prop=["C12", "C10"],
    params={"xs": "list[int]", "ys": "list[int]"},
    ghost={"F": ("int", None)},
    spec_funcs={"val": (["int"], "bool")},
    macros=_CNF_MACROS,
    uses={"self.full_adder": _FULL_ADDER},
    requires=["F >= 0", "len(xs) == len(ys)", "len(xs) >= 1",
              "forall(j, 0, len(xs), xs[j] != 0 and abs(xs[j]) <= F and ys[j] != 0 and abs(ys[j]) <= F)"],
    loops={0: dict(
        index="i", types={"cin": "opt[int]"},
        invariant=["len(s_accum) == i", "F == old(F) + 2 * i", "forall(j, 0, i, s_accum[j] == old(F) + 2 * j + 2)",
                   "iff(is_none(cin), i == 0)", "implies(i > 0, cin == old(F) + 2 * i - 1)", _RC_SUM],
        hints=["wbit(c, i) + wbit(s, i - 1) == wbit(x, i - 1) + wbit(y, i - 1) + ite(i > 1, wbit(pre(cin), i - 1), 0)",
               "sum(j, 0, i - 1, wbit(s_accum[j], j)) == pre(sum(j, 0, i, wbit(s_accum[j], j)))"])},
    ensures=["result[0] == old(F) + 2 * len(xs) - 1", "len(result[1]) == len(xs)",
             "forall(j, 0, len(xs), result[1][j] == old(F) + 2 * j + 2)", "F == old(F) + 2 * len(xs)",
             # the documented sum: little-endian value of the sum bits plus the carry-out equals the big-endian inputs' sum
             "sum(j, 0, len(xs), wbit(result[1][j], j)) + wbit(result[0], len(xs)) == "
             "sum(j, 0, len(xs), wbit(xs[len(xs) - 1 - j], j)) + sum(j, 0, len(xs), wbit(ys[len(ys) - 1 - j], j))"],
)

# ------------------------------------------------------------------ combinatorics.py: n_choose_m_given_m_factorial (C13)
# The loop computes the falling factorial n (n-1) ... (n-m+1); the result is its floor quotient by f_m.  With f_m == m! that
# quotient is the binomial coefficient (textbook identity  C(n,m) * m! == n!/(n-m)!  — not re-proved here, listed as an
# assumption; the native twin compares with math.comb on the bounded domain).
W["n_choose_m_given_m_factorial"] = dict(
    id="n_choose_m_given_m_factorial", target="sweetpea._internal.combinatorics:n_choose_m_given_m_factorial", prop=["C13"],
    params={"n": "int", "m": "int", "f_m": "int"},
    requires=["m >= 0", "n >= 0", "f_m >= 1"],
    ghost={"P": ("int", "1"), "Wf": ("list[int]", "[]")},        # Wf[t] = n0 (n0-1) ... (n0-t+1)
    loops={0: dict(
        invariant=["len(Wf) == old(n) - n", "h == old(n) - m", "n >= h", "old(n) > m", "p == P", "P >= 1",
                   "implies(len(Wf) > 0, Wf[0] == 1)", "forall(t, 0, len(Wf) - 1, Wf[t + 1] == Wf[t] * (old(n) - t))",
                   "implies(len(Wf) > 0, P == Wf[len(Wf) - 1] * (old(n) - (len(Wf) - 1)))", "implies(len(Wf) == 0, P == 1)"],
        decreases="n - h",
        ghost_update=["Wf.append(P)"],
        ghost_end=["P = P * (n + 1)"])},
    ensures=["implies(old(n) < m, result == 0)", "implies(old(n) == m, result == 1)",
             # n > m: P is the falling factorial with m factors and result == P div f_m
             "implies(old(n) > m, len(Wf) == m and P >= 1)",
             "implies(old(n) > m and m > 0, Wf[0] == 1 and P == Wf[m - 1] * (old(n) - (m - 1)))",
             "implies(old(n) > m, forall(t, 0, m - 1, Wf[t + 1] == Wf[t] * (old(n) - t)))",
             "implies(old(n) > m and m == 0, P == 1)",
             "implies(old(n) > m, result * f_m <= P and P < (result + 1) * f_m)", "result >= 0"],
    native=dict(call=lambda f, n, m, f_m: f(n, m, f_m),
                domain=lambda: ({"n": n, "m": m, "f_m": fm} for n in range(0, 9) for m in range(0, 9) for fm in (1, 2, _math.factorial(m))),
                ghost_post=lambda res, n, m, f_m: ({"Wf": [_math.factorial(n) // _math.factorial(n - t) for t in range(m)],
                                                   "P": _math.factorial(n) // _math.factorial(n - m), "n": n - m} if n > m else {"Wf": [], "P": 1})),
    assumptions=["falling factorial n!/(n-m)! divided by m! is the binomial coefficient C(n,m) (textbook identity; the contract proves that the "
                 "loop computes the falling factorial and the floor quotient by f_m; compared with math.comb natively on n, m <= 8)"],
)

# ------------------------------------------------------------------ core/cnf.py: ripple_saturate for every width (C12, used by C10)
_SAT_ADDER = dict(
    params={"a": "int", "b": "int", "cin": "opt[int]"}, ghost_args={"F": "F"},
    requires=["F >= 0", "a != 0", "abs(a) <= F", "b != 0", "abs(b) <= F", "is_none(cin) or (cin != 0 and abs(cin) <= F)"],
    returns="int",
    ensures=["result == F + 1",
             "iff(L(result), L(a) or L(b) or (not is_none(cin) and L(cin)))"],
    ghost_after=["F = F + 1"])
_X_LOW = "sum(j, 0, {n}, wbit(xs[len(xs) - 1 - j], j))"
_Y_LOW = "sum(j, 0, {n}, wbit(ys[len(ys) - 1 - j], j))"
_S_LOW = "sum(j, 0, {n}, wbit(s_accum[j], j))"
W["ripple_saturate"] = dict(
    id="ripple_saturate", target="sweetpea._internal.core.cnf:CNF.ripple_saturate", prop=["C12", "C10"],
    params={"xs": "list[int]", "ys": "list[int]", "saturate_at": "int"},
    ghost={"F": ("int", None)},
    spec_funcs={"val": (["int"], "bool")},
    macros=_CNF_MACROS,
    uses={"self.full_adder": _FULL_ADDER, "self.saturate_adder": _SAT_ADDER},
    # call sites (_pop_count_layer): both operands have the same width, at most saturate_at bits
    requires=["F >= 0", "len(xs) == len(ys)", "len(xs) >= 1", "len(xs) <= saturate_at",
              "forall(j, 0, len(xs), xs[j] != 0 and abs(xs[j]) <= F and ys[j] != 0 and abs(ys[j]) <= F)"],
    loops={0: dict(
        index="it", types={"cin": "opt[int]"},
        invariant=["len(s_accum) == it", "it <= saturate_at",
                   # ids: full adders allocate (carry, sum) = (F+1, F+2), the saturating top position one id
                   "implies(it < saturate_at, F == old(F) + 2 * it)", "implies(it == saturate_at, F == old(F) + 2 * it - 1)",
                   "forall(j, 0, it, implies(j + 1 < saturate_at, s_accum[j] == old(F) + 2 * j + 2))",
                   "implies(it == saturate_at, s_accum[it - 1] == old(F) + 2 * it - 1)",
                   "iff(is_none(cin), it == 0 or saturate_at == 1)",
                   "implies(it > 0 and it < saturate_at, cin == old(F) + 2 * it - 1)",
                   "implies(it == saturate_at and saturate_at > 1, cin == old(F) + 2 * (it - 1) - 1)",
                   # value: while no saturation happened this is the ripple-carry invariant
                   "implies(it < saturate_at, " + _S_LOW.format(n="it") + " + ite(it > 0, wbit(cin, it), 0) == " + _X_LOW.format(n="it") + " + " + _Y_LOW.format(n="it") + ")",
                   _S_LOW.format(n="it") + " >= 0", "implies(it < saturate_at, " + _S_LOW.format(n="it") + " < pow2(it))",
                   # after the saturating position (it == saturate_at == len(xs)): low bits exact with carry `cin`, top bit is the OR
                   "implies(it == saturate_at, " + _S_LOW.format(n="it - 1") + " + ite(it > 1, wbit(cin, it - 1), 0) == " + _X_LOW.format(n="it - 1") + " + " + _Y_LOW.format(n="it - 1") + ")",
                   "implies(it == saturate_at, " + _S_LOW.format(n="it - 1") + " < pow2(it - 1) and " + _S_LOW.format(n="it - 1") + " >= 0)",
                   "implies(it == saturate_at, iff(L(s_accum[it - 1]), L(xs[len(xs) - it]) or L(ys[len(ys) - it]) or (it > 1 and L(cin))))"],
        hints=["implies(it < saturate_at, wbit(c, it) + wbit(s, it - 1) == wbit(x, it - 1) + wbit(y, it - 1) + ite(it > 1, wbit(pre(cin), it - 1), 0))",
               "sum(j, 0, it - 1, wbit(s_accum[j], j)) == pre(sum(j, 0, it, wbit(s_accum[j], j)))"])},
    ensures=[
        # shape and ids
        "implies(len(xs) < saturate_at, len(result) == len(xs) + 1 and F == old(F) + 2 * len(xs))",
        "implies(len(xs) == saturate_at, len(result) == len(xs) and F == old(F) + 2 * len(xs) - 1)",
        "forall(j, 0, len(result), result[j] > old(F) and result[j] <= F)",
        # len < saturate_at: the exact sum, most significant bit first (carry-out on top)
        "implies(len(xs) < saturate_at, sum(j, 0, len(xs) + 1, wbit(result[len(xs) - j], j)) == "
        + _X_LOW.format(n="len(xs)") + " + " + _Y_LOW.format(n="len(xs)") + ")",
        # len == saturate_at (documented saturation of the top bit): exact while the sum fits below the top bit, top bit set otherwise
        "implies(len(xs) == saturate_at and " + _X_LOW.format(n="len(xs)") + " + " + _Y_LOW.format(n="len(xs)") + " < pow2(len(xs) - 1), "
        "sum(j, 0, len(xs), wbit(result[len(xs) - 1 - j], j)) == " + _X_LOW.format(n="len(xs)") + " + " + _Y_LOW.format(n="len(xs)") + ")",
        "implies(len(xs) == saturate_at and " + _X_LOW.format(n="len(xs)") + " + " + _Y_LOW.format(n="len(xs)") + " >= pow2(len(xs) - 1), L(result[0]))",
    ],
)

# ------------------------------------------------------------------ block.py: Block._check_constraints (C22)
# The user's predicate is abstract: H(c, i) is "constraint c's predicate holds on trial i's values of c's factors, in c's order".
# That the real code calls the predicate on exactly those values is the PRECONDITION of the abstract callee (callpre obligations);
# the postcondition then says the function returns True iff H holds for every ContinuousConstraint of the block at every trial.
def _cc_domain():
    import itertools as it
    from sweetpea._internal.primitive import ContinuousFactor
    from sweetpea._internal.constraint import ContinuousConstraint, MinimumTrials
    from sweetpea._internal.distribution import UniformDistribution
    t, u = ContinuousFactor("t", distribution=UniformDistribution(0, 1)), ContinuousFactor("u", distribution=UniformDistribution(0, 1))
    preds = [lambda a, b: a < b, lambda a, b: a + b < 3, lambda b: b != 1]
    for T in range(0, 4):
        for vals in it.product([0, 1, 2], repeat=2 * T) if T <= 2 else [tuple((i * 7 + k) % 3 for i in range(2 * T)) for k in range(6)]:
            samples = {"t": list(vals[:T]), "u": list(vals[T:])}
            for cs in ([], [MinimumTrials(2)], [ContinuousConstraint([t, u], preds[0])], [MinimumTrials(2), ContinuousConstraint([u, t], preds[0]), ContinuousConstraint([t, u], preds[1])],
                       [ContinuousConstraint([u], preds[2]), ContinuousConstraint([t, u], preds[1])]):
                yield dict(continuous_samples=samples, CS=cs)


W["check_constraints"] = dict(
    id="check_constraints", target="sweetpea._internal.block:Block._check_constraints", prop=["C22"],
    params={"continuous_samples": "dict[obj,list[obj]]"},
    self_fields={"self.constraints": ("CS", "list[obj]")},
    attrs={"factors": "list[obj]", "constraint_function": "obj", "name": "obj"},
    consts=["ContinuousConstraint"], local_types={"continue_constraints": "list[obj]"},
    spec_funcs={"H": (["obj", "int"], "bool")},
    uses={"_function": dict(params={"xs": "list[obj]"}, ghost_args={"c": "c", "i": "i", "continuous_samples": "continuous_samples"},
                            requires=["callee == c.constraint_function", "len(xs) == len(c.factors)",
                                      "forall(j, 0, len(xs), xs[j] == continuous_samples[c.factors[j].name][i])"],
                            returns="bool", ensures=["result == H(c, i)"])},
    requires=[  # what Block construction guarantees: a constraint has at least one factor, every factor of a constraint has a sample list, all of one length
        "forall(m, 0, len(CS), implies(isinstance(CS[m], ContinuousConstraint), len(CS[m].factors) >= 1))",
        "forall(m, 0, len(CS), implies(isinstance(CS[m], ContinuousConstraint), forall(j, 0, len(CS[m].factors), CS[m].factors[j].name in continuous_samples)))",
        "forall(m, 0, len(CS), implies(isinstance(CS[m], ContinuousConstraint), forall(j, 0, len(CS[m].factors), "
        "len(continuous_samples[CS[m].factors[j].name]) == len(continuous_samples[CS[m].factors[0].name]))))"],
    loops={0: dict(index="m0", invariant=[
               "forall(j, 0, len(continue_constraints), isinstance(continue_constraints[j], ContinuousConstraint))",
               "forall(j, 0, len(continue_constraints), exists(m, 0, m0, CS[m] == continue_constraints[j]))",
               "forall(m, 0, m0, implies(isinstance(CS[m], ContinuousConstraint), exists(j, 0, len(continue_constraints), continue_constraints[j] == CS[m])))"]),
           1: dict(index="m1", invariant=[
               "forall(j, 0, m1, forall(t, 0, len(continuous_samples[continue_constraints[j].factors[0].name]), H(continue_constraints[j], t)))"]),
           2: dict(index="m2", invariant=["forall(t, 0, m2, H(c, t))"])},
    ensures=["result == forall(m, 0, len(CS), implies(isinstance(CS[m], ContinuousConstraint), "
             "forall(t, 0, len(continuous_samples[CS[m].factors[0].name]), H(CS[m], t))))"],
    native=dict(call=lambda f, continuous_samples, CS: f(_types.SimpleNamespace(constraints=CS), continuous_samples),
                domain=_cc_domain,
                spec_funcs_from=lambda continuous_samples, CS: {
                    "H": (lambda c, t: bool(c.constraint_function(*[continuous_samples[f.name][t] for f in c.factors]))),
                    "ContinuousConstraint": __import__("sweetpea._internal.constraint", fromlist=["x"]).ContinuousConstraint}),
)

# ------------------------------------------------------------------ primitive.py: ContinuousFactorWindow (C22)
# derivations.rst / ContinuousFactorWindow: the window of trial idx is {0: value at idx, -1: value at idx-1, ...} per factor, NaN where the
# window is not yet defined (idx < start, or a position before the first trial) or skipped by the stride.
_NAN = "float('nan')"
_CFW_MACROS = {
    "NANW": (["o"], f"forall(k, 0, WD, (0 - k) in o and o[0 - k] == {_NAN}) and forall(q, implies(q in o, 0 - WD < q and q <= 0))"),
    "VALW": (["o", "j"], f"forall(k, 0, WD, (0 - k) in o and o[0 - k] == ite(idx - k < 0, {_NAN}, dependent_dict[FS[j].name][idx - k])) "
                         "and forall(q, implies(q in o, 0 - WD < q and q <= 0))"),
    "ELEM": (["o", "j"], "ite(idx < ST or (SD > 1 and (idx - ST) % SD != 0), NANW(o), VALW(o, j))"),
}


class _NanEq:          # native twin: float('nan') == float('nan') must hold when the contract text is evaluated by CPython
    def __eq__(self, other):
        return other is self or (isinstance(other, float) and other != other)
    __hash__ = object.__hash__


def _cfw_mk(FS_names, ST, SD, WD):
    from sweetpea._internal.primitive import ContinuousFactorWindow, ContinuousFactor
    from sweetpea._internal.distribution import UniformDistribution
    fs = [ContinuousFactor(n, distribution=UniformDistribution(0, 1)) for n in FS_names]
    return ContinuousFactorWindow(fs, WD, SD, ST), fs


def _cfw_domain():
    for nf in (1, 2):
        for WD in (1, 2, 3):
            for SD in (1, 2, 3):
                for ST in range(0, WD + 2):
                    for idx in range(0, 7):
                        names = ["t", "u"][:nf]
                        yield dict(idx=idx, dependent_dict={n: [f"{n}{i}" for i in range(8)] for n in names}, FS_names=names, ST=ST, SD=SD, WD=WD)


def _cfw_env(kw):
    w, fs = _cfw_mk(kw["FS_names"], kw["ST"], kw["SD"], kw["WD"])
    return w, fs


def _cfw_expected(idx, dependent_dict, FS_names, ST, SD, WD):
    nan = float("nan")
    out = []
    for n in FS_names:
        if idx < ST or (SD > 1 and (idx - ST) % SD != 0):
            out.append({-k: nan for k in range(WD)})
        else:
            out.append({-k: (nan if idx - k < 0 else dependent_dict[n][idx - k]) for k in range(WD)})
    return out[0] if len(out) == 1 else out


def _same(a, b):
    if isinstance(a, list) or isinstance(b, list):
        return isinstance(a, list) and isinstance(b, list) and len(a) == len(b) and all(_same(x, y) for x, y in zip(a, b))
    if isinstance(a, dict) or isinstance(b, dict):
        return isinstance(a, dict) and isinstance(b, dict) and set(a) == set(b) and all(_same(a[k], b[k]) for k in a)
    return a == b or (a != a and b != b)


def _cfw_check(res, idx, dependent_dict, FS_names, ST, SD, WD):
    want = _cfw_expected(idx, dependent_dict, FS_names, ST, SD, WD)
    return None if _same(res, want) else f"window of trial {idx} is {res!r}, the documented window is {want!r}"


W["return_nan"] = dict(
    id="return_nan", target="sweetpea._internal.primitive:ContinuousFactorWindow._return_nan", prop=["C22"],
    params={}, self_fields={"self.width": ("WD", "int")},
    dict_types={"{}": "dict[int,obj]"}, boxed_dicts=True,
    requires=[],
    loops={0: dict(index="n0", invariant=[f"forall(k, 0, n0, (0 - k) in factor_idx and factor_idx[0 - k] == {_NAN})",
                                          "forall(q, implies(q in factor_idx, 0 - n0 < q and q <= 0))"])},
    ensures=[f"forall(k, 0, WD, (0 - k) in result and result[0 - k] == {_NAN})", "forall(q, implies(q in result, 0 - WD < q and q <= 0))"],
)

W["get_window_val"] = dict(
    id="get_window_val", target="sweetpea._internal.primitive:ContinuousFactorWindow.get_window_val", prop=["C22"],
    params={"idx": "int", "dependent_dict": "dict[obj,list[obj]]"},
    self_fields={"self.factors": ("FS", "list[obj]"), "self.start": ("ST", "int"), "self.stride": ("SD", "int"), "self.width": ("WD", "int")},
    attrs={"name": "obj"}, dict_types={"{}": "dict[int,obj]"}, boxed_dicts=True, local_types={"outlist": "list[obj]"},
    macros=_CFW_MACROS,
    uses={"self._return_nan": dict(params={}, returns="obj", ghost_args={"WD": "WD"},
                                   ensures=[f"forall(k, 0, WD, (0 - k) in result and result[0 - k] == {_NAN})", "forall(q, implies(q in result, 0 - WD < q and q <= 0))"])},
    # call site (_sample_continuous): trial index idx >= 0, the sample lists of the window's factors are complete (length > idx)
    requires=["idx >= 0", "WD >= 1", "SD >= 1", "ST >= 0", "len(FS) >= 1",
              "forall(j, 0, len(FS), FS[j].name in dependent_dict and len(dependent_dict[FS[j].name]) > idx)"],
    loops={0: dict(index="jf", invariant=["len(outlist) == jf", "forall(j, 0, jf, ELEM(outlist[j], j))"]),
           1: dict(index="k1", invariant=[f"forall(k, 0, k1, (0 - k) in factor_idx and factor_idx[0 - k] == ite(idx - k < 0, {_NAN}, dependent_dict[f.name][idx - k]))",
                                          "forall(q, implies(q in factor_idx, 0 - k1 < q and q <= 0))"]),
           2: dict(index="k2", invariant=["forall(k, 0, k2, (0 - k) in factor_idx and factor_idx[0 - k] == dependent_dict[f.name][idx - k])",
                                          "forall(q, implies(q in factor_idx, 0 - k2 < q and q <= 0))"])},
    ensures_at={0: ["len(FS) == 1", "ELEM(result, 0)"],
                1: ["len(FS) >= 2", "len(result) == len(FS)", "forall(j, 0, len(FS), ELEM(result[j], j))"]},
    native=dict(call=lambda f, idx, dependent_dict, FS_names, ST, SD, WD: f(_cfw_mk(FS_names, ST, SD, WD)[0], idx, dependent_dict),
                domain=_cfw_domain, check=_cfw_check, skip_requires=True),
)

# ------------------------------------------------------------------ logic.py: _Cache.get (C11: Tseitin representatives come from the fresh range, one per key)
def _cache_domain():
    import itertools as it
    for keys in it.chain.from_iterable(it.product("abc", repeat=n) for n in range(0, 4)):
        for s_ in "abcd":
            yield dict(keys=list(keys), s=s_, start=5)


def _cache_call(f, keys, s, start):
    from sweetpea._internal.logic import _Cache
    c = _Cache(start)
    for k in keys:
        c.get(k)
    before = (dict(c.cache), c.next_variable)
    r = f(c, s)
    return (r, before, dict(c.cache), c.next_variable)


def _cache_check(res, keys, s, start):
    r, (cache0, nv0), cache1, nv1 = res
    if s in cache0:
        ok = r == cache0[s] and cache1 == cache0 and nv1 == nv0
    else:
        ok = r == nv0 and nv1 == nv0 + 1 and cache1 == {**cache0, s: nv0}
    inj = len(set(cache1.values())) == len(cache1) and all(start <= v < nv1 for v in cache1.values())
    return None if ok and inj else f"get({s!r}) on cache {cache0} / next {nv0} returned {r}, cache {cache1}, next {nv1}"


_CACHE_INV = "forallo(k1, implies(k1 in CACHE, CACHE[k1] < NV and forallo(k2, implies(k2 in CACHE and CACHE[k1] == CACHE[k2], k1 == k2))))"
W["cache_get"] = dict(
    id="cache_get", target="sweetpea._internal.logic:_Cache.get", prop=["C11"],
    params={"s": "obj"},
    self_state={"self.cache": ("CACHE", "dict[obj,int]"), "self.next_variable": ("NV", "int")},
    requires=[_CACHE_INV],       # representation invariant: ids handed out so far are below next_variable and distinct keys have distinct ids
    ensures=["implies(s in old(CACHE), result == old(CACHE)[s] and NV == old(NV))",
             "implies(not (s in old(CACHE)), result == old(NV) and NV == old(NV) + 1)",
             "s in CACHE and CACHE[s] == result",
             "forallo(k, implies(k != s, iff(k in CACHE, k in old(CACHE)) and implies(k in CACHE, CACHE[k] == old(CACHE)[k])))",     # frame: every other key untouched
             _CACHE_INV],
    native=dict(call=_cache_call, domain=_cache_domain, check=_cache_check, skip_requires=True, skip_ensures=True),
)

# ------------------------------------------------------------------ constraint.py: Cross.__add_weight_constraint (C23, C01, C02)
# main.rst "CrossBlock" / weights: each combination occurs weight*crossing_weight times in every complete run of
# crossing_size*crossing_weight trials, and at most that often in a trailing partial run.  OFF[j] is the offset of chunk j (ghost).
_LLR = dict(params={"comparison": "obj", "k": "int", "variables": "list[int]"}, returns="obj",
            ensures=["result.comparison == comparison", "result.k == k", "len(result.variables) == len(variables)",
                     "forall(i, 0, len(variables), result.variables[i] == variables[i])"])
_AWC_S = "(crossing_size * crossing_weight)"
_AWC_CHUNK = ("ite(len(V0) - OFF[j] >= S, "
              "REQS[j].comparison == 'EQ' and REQS[j].k == weight * crossing_weight and len(REQS[j].variables) == S, "
              "REQS[j].comparison == 'LT' and REQS[j].k == weight * crossing_weight + 1 and len(REQS[j].variables) == len(V0) - OFF[j]) "
              "and forall(i, 0, len(REQS[j].variables), REQS[j].variables[i] == V0[OFF[j] + i])")


def _awc_domain():
    for n in range(0, 9):
        for cs in (1, 2, 3):
            for cw in (1, 2):
                for w in (1, 2):
                    yield dict(variables=list(range(10, 10 + n)), weight=w, crossing_size=cs, crossing_weight=cw)


def _awc_check(res, variables, weight, crossing_size, crossing_weight):
    S = crossing_size * crossing_weight
    want = []
    for off in range(0, len(variables), S):
        ch = variables[off:off + S]
        want.append(("EQ", weight * crossing_weight, ch) if len(ch) == S else ("LT", weight * crossing_weight + 1, ch))
    got = [(r.comparison, r.k, list(r.variables)) for r in res]
    return None if got == want else f"requests {got}, documented {want}"


W["add_weight_constraint"] = dict(
    id="add_weight_constraint", target="sweetpea._internal.constraint:Cross.__add_weight_constraint", prop=["C23", "C01", "C02"],
    params={"variables": "list[int]", "weight": "int", "crossing_size": "int", "crossing_weight": "int"},
    attrs={"comparison": "obj", "k": "int", "variables": "list[int]"}, local_types={"reqs": "list[obj]"},
    uses={"LowLevelRequest": _LLR},
    ghost={"V0": ("list[int]", "variables"), "OFF": ("list[int]", "[]"), "S": ("int", _AWC_S)},
    macros={"CHUNK": (["REQS", "j"], _AWC_CHUNK)},
    requires=["crossing_size >= 1", "crossing_weight >= 1", "weight >= 1"],
    loops={0: dict(
        invariant=["S == " + _AWC_S, "S >= 1", "len(OFF) == len(reqs)", "implies(len(OFF) > 0, OFF[0] == 0)", "forall(j, 0, len(OFF) - 1, OFF[j + 1] == OFF[j] + S)",
                   "to_add == len(V0) - ite(len(OFF) > 0, OFF[len(OFF) - 1] + S, 0)",
                   "len(variables) == ite(to_add > 0, to_add, 0)",
                   "forall(i, 0, len(variables), variables[i] == V0[len(V0) - to_add + i])",
                   "forall(j, 0, len(OFF), OFF[j] < len(V0))",
                   "forall(j, 0, len(reqs), CHUNK(reqs, j))"],
        decreases="to_add",
        ghost_update=["OFF.append(len(V0) - to_add)"])},
    ensures=["len(result) == len(OFF)", "implies(len(OFF) > 0, OFF[0] == 0)", "forall(j, 0, len(OFF) - 1, OFF[j + 1] == OFF[j] + S)", "S == " + _AWC_S,
             # the chunks cover the variable list exactly: nothing when it is empty, otherwise the last chunk ends at or after its end
             "iff(len(result) == 0, len(V0) == 0)",
             "implies(len(OFF) > 0, OFF[len(OFF) - 1] < len(V0) and len(V0) <= OFF[len(OFF) - 1] + S)",
             "forall(j, 0, len(result), CHUNK(result, j))"],
    native=dict(call=lambda f, variables, weight, crossing_size, crossing_weight: f(list(variables), weight, crossing_size, crossing_weight),
                domain=_awc_domain, check=_awc_check, skip_requires=True, skip_ensures=True),
)

# ------------------------------------------------------------------ combinatorics.py: construct_permutation (C13)
# Ghost C[j] = number of unused indices below j (C[0] == 0, C[j+1] == C[j] + [not used[j]]).  Marking index p as used lowers C[j] by one for j > p,
# so the recurrence is kept by instantiation alone (no induction).  Proved: no IndexError (the scans stay inside `used` because unused indices remain),
# every entry is an index in [0, orig_n), entries are pairwise distinct (a permutation prefix), and each entry is chosen as the skip-th unused index.
_CP_U = "ite(used[j], 0, 1)"
_CP_REC = ["len(C) == orig_n + 1", "len(used) == orig_n", "C[0] == 0", f"forall(j, 0, orig_n, C[j + 1] == C[j] + {_CP_U})"]
W["construct_permutation"] = dict(
    id="construct_permutation", target="sweetpea._internal.combinatorics:construct_permutation", prop=["C13"],
    params={"inversion_sequence": "list[int]", "orig_n": "int"},
    requires=["orig_n >= 0", "len(inversion_sequence) <= orig_n",
              "forall(t, 0, len(inversion_sequence), 0 <= inversion_sequence[t] and inversion_sequence[t] < orig_n - t)"],
    ghost={"C": ("list[int]", "[j for j in range(orig_n + 1)]"), "K": ("int", "0")},
    loops={0: dict(index="it",
                   invariant=_CP_REC + ["len(permutation) == len(inversion_sequence)", "C[orig_n] == orig_n - it",
                                        "forall(t, 0, it, 0 <= permutation[t] and permutation[t] < orig_n and used[permutation[t]])",
                                        "forall(s, 0, it, forall(t, 0, it, implies(s != t, permutation[s] != permutation[t])))"],
                   ghost_end=["C = [C[j] - ite(j > idx, 1, 0) for j in range(orig_n + 1)]"]),
           1: dict(invariant=_CP_REC + ["0 <= idx", "idx < orig_n", "C[idx] == 0", "C[orig_n] == orig_n - it"], decreases="orig_n - idx"),
           2: dict(invariant=_CP_REC + ["0 <= idx", "idx < orig_n", "skip >= 0", "C[idx] == inversion_sequence[it] - skip", "C[orig_n] == orig_n - it",
                                        "implies(skip == 0, True)"], decreases="orig_n - idx"),
           3: dict(invariant=_CP_REC + ["0 <= idx", "idx < orig_n", "C[idx] == inversion_sequence[it]", "C[orig_n] == orig_n - it"], decreases="orig_n - idx")},
    ensures=["len(result) == len(inversion_sequence)",
             "forall(t, 0, len(result), 0 <= result[t] and result[t] < orig_n)",
             "forall(s, 0, len(result), forall(t, 0, len(result), implies(s != t, result[s] != result[t])))"],
    native=dict(call=lambda f, inversion_sequence, orig_n: f(list(inversion_sequence), orig_n),
                domain=lambda: ({"inversion_sequence": list(inv), "orig_n": n} for n in range(0, 6) for m in range(0, n + 1)
                                for inv in _it.product(*[range(n - t) for t in range(m)])),
                ghost_post=lambda res, inversion_sequence, orig_n: {}),
)

# ------------------------------------------------------------------ block.py: Block._get_previous_trials_variable_count (C14)
# CNT(u) = number of trials t' in 1..u-1 to which the factor applies (with sustain: trial t' belongs to run (t'-1)//SC + 1).  The memo table may hold
# any subset of correct entries (representation invariant); the result does not depend on what is cached, and the entries of other factors are untouched.
_PC_CNT = "sum(j, 1, {u}, ite(applies((j - 1) // SC + 1), 1, 0))"
_PC_INV = "forall(u, implies((f, u) in CACHE, u >= 1 and CACHE[(f, u)] == " + _PC_CNT.format(u="u") + "))"


def _pc_domain():
    import itertools as it
    for trial in range(1, 8):
        for SC in (1, 2):
            for START, STRIDE in ((0, 1), (1, 1), (0, 2), (2, 3)):
                for cached in ([], [3], [2, 5], [1, 4, 6]):
                    yield dict(trial=trial, SC=SC, START=START, STRIDE=STRIDE, cached=[u for u in cached])


def _pc_call(fn, trial, SC, START, STRIDE, cached):
    app = lambda u: u - 1 >= START and (u - 1 - START) % STRIDE == 0
    class _F:
        applies_to_trial = staticmethod(app)
    fobj = _F()
    other = object()
    cnt = lambda u: sum(1 for j in range(1, u) if app((j - 1) // SC + 1))
    cache = {(fobj, u): cnt(u) for u in cached}
    cache[(other, 3)] = 777
    stub = _types.SimpleNamespace(sustain_count=lambda _f: SC, _cached_previous_count=cache)
    r = fn(stub, fobj, trial)
    bad = [k for k, v in cache.items() if k[0] is fobj and v != cnt(k[1])]
    return (r, cnt(trial), bad, cache.get((other, 3)))


def _pc_check(res, **kw):
    r, want, bad, other = res
    return None if r == want and not bad and other == 777 else f"returned {r}, expected {want}; wrong cache entries {bad}; foreign entry {other}"


W["previous_trials_variable_count"] = dict(
    id="previous_trials_variable_count", target="sweetpea._internal.block:Block._get_previous_trials_variable_count", prop=["C14"],
    params={"f": "obj", "trial": "int"},
    self_fields={"self.sustain_count(f)": ("SC", "int")},
    self_state={"self._cached_previous_count": ("CACHE", "dict[pair,int]")},
    spec_funcs={"applies": (["int"], "bool")},
    uses={"f.applies_to_trial": dict(params={"t": "int"}, requires=["t >= 1"], returns="bool", ensures=["result == applies(t)"])},
    requires=["trial >= 1", "SC >= 1", _PC_INV],
    loops={0: dict(types={"maybe_count": "opt[int]"}, invariant=["1 <= t", "t <= trial", _PC_INV,
                              "forallo(g, forall(u, implies(g != f, iff((g, u) in CACHE, (g, u) in old(CACHE)) and CACHE[(g, u)] == old(CACHE)[(g, u)])))"],
                   decreases="t"),
           1: dict(types={"count": "opt[int]"}, invariant=["1 <= t", "t <= trial", "not is_none(count)", "count == " + _PC_CNT.format(u="t"), _PC_INV,
                              "forallo(g, forall(u, implies(g != f, iff((g, u) in CACHE, (g, u) in old(CACHE)) and CACHE[(g, u)] == old(CACHE)[(g, u)])))"],
                   hints=["count == " + _PC_CNT.format(u="t")],
                   decreases="trial - t")},
    ensures=["result == " + _PC_CNT.format(u="trial"), _PC_INV,
             "forallo(g, forall(u, implies(g != f, iff((g, u) in CACHE, (g, u) in old(CACHE)) and CACHE[(g, u)] == old(CACHE)[(g, u)])))"],
    native=dict(call=_pc_call, domain=_pc_domain, check=_pc_check, skip_requires=True, skip_ensures=True),
)

# ------------------------------------------------------------------ core/cnf.py: assert_k_of_n for every n and k (C10)
# Var(v) ~ v.  The formula's clauses come in two kinds: definitional clauses of fresh variables (adders, padding), whose consequences are ASSUMED
# through the callee contracts (every assignment satisfying them satisfies the sum equations), and the unit clauses asserted at the end, which are
# collected in the ghost U.  Postcondition: under the definitions, U holds iff exactly k of the inputs are true — the semantic half of C10
# ("satisfiable under an assignment of the n variables iff the count stands in the relation to k").  Existence and uniqueness of the extension is the
# Lemma-DE side condition (every fresh variable defined once), checked per shape in the S tier.  pop_count is used BY CONTRACT for symbolic n: that
# contract is an assumption here (checked per n <= 16/40 in C12's S tier and by the large-n spot checks), everything else is proved.
_CNT = "sum(j, 0, len(in_list), bit(in_list[j]))"
_KSUM = "sum(j, 0, len(in_binary), ite(in_binary[j] == 1, pow2(j), 0))"                                 # threshold bits, least significant first (after .reverse())
_VSUM = "sum(j, 0, len(sum_bits), wbit(sum_bits[len(sum_bits) - 1 - j], j))"                              # value of the count's bits
_PSUM = "sum(j, 0, len(sum_bits), ite(left_padded[len(sum_bits) - 1 - j] == 1, pow2(j), 0))"            # value of the padded threshold bits
_PCV = "sum(j, 0, len(result), wbit(result[len(result) - 1 - j], j))"
_INT_TO_BINARY = dict(params={"value": "int"}, requires=["value >= 0"], returns="list[int]",
                      ensures=["forall(i, 0, len(result), result[i] == 1 or result[i] == -1)",
                               "value == sum(i, 0, len(result), ite(result[len(result) - 1 - i] == 1, pow2(i), 0))",
                               "implies(value > 0, len(result) > 0 and result[0] == 1)", "implies(value == 0, len(result) == 0)"])
_POP_COUNT = dict(params={"in_list": "list[int]", "saturate_at": "int"},
                  requires=["len(in_list) >= 1", "saturate_at >= 1", "forall(j, 0, len(in_list), in_list[j] > 0)"],
                  returns="list[int]",
                  ensures=["len(result) >= 1", "len(result) <= saturate_at", "forall(j, 0, len(result), result[j] != 0)",
                           f"implies(len(result) < saturate_at, {_PCV} == {_CNT})",
                           f"implies(len(result) == saturate_at, ite({_CNT} < pow2(saturate_at - 1), {_PCV} == {_CNT}, {_PCV} >= pow2(saturate_at - 1)))",
                           "implies(len(result) < saturate_at, pow2(len(result) - 1) >= len(in_list))"])
W["assert_k_of_n"] = dict(
    id="assert_k_of_n", target="sweetpea._internal.core.cnf:CNF.assert_k_of_n", prop=["C10"],
    params={"k": "int", "in_list": "list[int]"},
    ghost={"U": ("bool", "True")},
    spec_funcs={"val": (["int"], "bool")},
    macros=_CNF_MACROS, identity_calls=["Var", "Clause", "CNF"], identity_attrs=["value"],
    lemmas=["sum_ranges", "binary"], ms=45000,
    uses={"self._assert_unsatisfiable": dict(params={"in_list": "list[int]"}, ghost_after=["U = False"]),
          "int_to_binary": _INT_TO_BINARY, "self.pop_count": _POP_COUNT,
          # "all unit clauses hold", enumerated from the last unit to the first (a reindexing of a finite conjunction: lemma.reindex, proved each run)
          "self.prepend": dict(params={"units": "list[int]"}, ghost_after=["U = U and forall(j, 0, len(arg_units), L(arg_units[len(arg_units) - 1 - j]))"])},
    requires=["k >= 0", "len(in_list) >= 1", "forall(j, 0, len(in_list), in_list[j] > 0)"],
    post_hints_at={-1: [
        "len(left_padded) == len(sum_bits) and len(assertion) == len(sum_bits)",
        "forall(j, 0, len(in_binary), in_binary[j] == 1 or in_binary[j] == -1)",
        "k == " + _KSUM,
        "k < pow2(len(in_binary))",
        # everything below is indexed from the least significant end (position len-1-j of the most-significant-first lists)
        "forall(i, 0, len(sum_bits), left_padded[i] == ite(len(sum_bits) - 1 - i < len(in_binary), in_binary[len(sum_bits) - 1 - i], 0 - 1))",
        "forall(j, 0, len(sum_bits), left_padded[len(sum_bits) - 1 - j] == ite(j < len(in_binary), in_binary[j], 0 - 1))",
        "forall(i, 0, len(sum_bits), left_padded[i] == 1 or left_padded[i] == -1)",
        "forall(i, 0, len(sum_bits), assertion[i] == left_padded[i] * sum_bits[i])",
        "forall(i, 0, len(sum_bits), assertion[i] == ite(left_padded[i] == 1, sum_bits[i], 0 - sum_bits[i]))",
        "forall(i, 0, len(sum_bits), iff(L(assertion[i]), iff(L(sum_bits[i]), left_padded[i] == 1)))",
        "forall(j, 0, len(sum_bits), left_padded[len(sum_bits) - 1 - j] == 1 or left_padded[len(sum_bits) - 1 - j] == -1)",
        "forall(j, 0, len(sum_bits), iff(L(assertion[len(sum_bits) - 1 - j]), iff(L(sum_bits[len(sum_bits) - 1 - j]), left_padded[len(sum_bits) - 1 - j] == 1)))",
        "iff(U, forall(j, 0, len(sum_bits), L(assertion[len(sum_bits) - 1 - j])))",
        "iff(U, forall(j, 0, len(sum_bits), iff(L(sum_bits[len(sum_bits) - 1 - j]), left_padded[len(sum_bits) - 1 - j] == 1)))",
        # value of the padded threshold bits and of the sum bits
        "implies(forall(j, 0, len(sum_bits), iff(L(sum_bits[len(sum_bits) - 1 - j]), left_padded[len(sum_bits) - 1 - j] == 1)), " + _VSUM + " == " + _PSUM + ")",
        "forall(j, 0, len(sum_bits), wbit(sum_bits[len(sum_bits) - 1 - j], j) == 0 or wbit(sum_bits[len(sum_bits) - 1 - j], j) == pow2(j))",
        "forall(j, 0, len(sum_bits), ite(left_padded[len(sum_bits) - 1 - j] == 1, pow2(j), 0) == 0 or ite(left_padded[len(sum_bits) - 1 - j] == 1, pow2(j), 0) == pow2(j))",
        "implies(" + _VSUM + " == " + _PSUM + ", forall(j, 0, len(sum_bits), wbit(sum_bits[len(sum_bits) - 1 - j], j) == ite(left_padded[len(sum_bits) - 1 - j] == 1, pow2(j), 0)))",
        "implies(" + _VSUM + " == " + _PSUM + ", forall(j, 0, len(sum_bits), iff(L(sum_bits[len(sum_bits) - 1 - j]), left_padded[len(sum_bits) - 1 - j] == 1)))",
        "iff(U, " + _VSUM + " == " + _PSUM + ")",
        "implies(len(in_binary) >= 2, k >= pow2(len(in_binary) - 1))",
        # the count's width is at least the threshold's: otherwise k <= n <= 2^(width-1) and k >= 2^(len(in_binary)-1) >= 2 * 2^(width-1)
        "k <= len(in_list)",
        "implies(len(sum_bits) < len(in_binary), pow2(len(sum_bits) - 1) >= len(in_list))",
        "implies(len(sum_bits) < len(in_binary), 2 * pow2(len(sum_bits) - 1) <= pow2(len(in_binary) - 1))",
        "len(sum_bits) >= len(in_binary)",
        # the padded threshold has the threshold's value: equal summands below len(in_binary), zero summands above
        "sum(j, 0, len(in_binary), ite(left_padded[len(sum_bits) - 1 - j] == 1, pow2(j), 0)) == k",
        "forall(j, len(in_binary), len(sum_bits), ite(left_padded[len(sum_bits) - 1 - j] == 1, pow2(j), 0) == 0)",
        _PSUM + " == sum(j, 0, len(in_binary), ite(left_padded[len(sum_bits) - 1 - j] == 1, pow2(j), 0))",
        _PSUM + " == k",
    ]},
    ensures=[f"iff(U, {_CNT} == k)"],
    assumptions=["pop_count's contract for symbolic n (result width, exact count below the saturation point, top bit set at or above it, capacity of an unsaturated "
                 "result) is assumed; it is checked per shape n <= 16 (thorough 40) in C12 and on large n by C10.large",
                 "Var/Clause/CNF wrappers are modelled by the wrapped values; the unit clauses appended at the end are collected in the ghost U, definitional clauses "
                 "enter through the callee contracts"],
)

# ------------------------------------------------------------------ core/cnf.py: _inequality_assertion (assert_k_less_than_n / assert_k_greater_than_n) for every n and k (C10)
# Same scheme as assert_k_of_n: definitional clauses enter through callee contracts (pop_count, the fresh threshold variables fixed to k's bits, padding,
# two's complement, ripple-carry adder), the final unit clause set_to_one(ss[-1]) is collected in U.  Postcondition: U iff count < k (resp. count > k).
_BE_MACROS = dict(_CNF_MACROS)
_BE_MACROS["BE"] = (["zs"], "sum(j, 0, len(zs), wbit(zs[len(zs) - 1 - j], j))")
_NZ = "forall(j, 0, len({x}), {x}[j] != 0)"
_GET_N_FRESH = dict(params={"n": "int"}, returns="list[int]", ensures=["len(result) == ite(n > 0, n, 0)", "forall(j, 0, len(result), result[j] > 0)"])
_PREPEND_DEFS = dict(params={"units": "list[int]"}, ensures=["forall(j, 0, len(units), L(units[j]))"],       # unit clauses on FRESH variables: definitions
                     ghost_after=["KV0 = k_vars", "SB0 = sum_bits"])
_MSL = dict(params={"xs": "list[int]", "ys": "list[int]"}, modifies=["xs", "ys"], requires=[_NZ.format(x="xs"), _NZ.format(x="ys")],
            ensures=["len(xs) == len(ys)", "BE(xs) == BE(old_xs)", "BE(ys) == BE(old_ys)", _NZ.format(x="xs"), _NZ.format(x="ys"),
                     "implies(len(old_xs) == len(old_ys), len(xs) == len(old_xs))",
                     "implies(len(old_xs) != len(old_ys), len(xs) == max(len(old_xs), len(old_ys)) + 1 and not L(xs[0]) and not L(ys[0]))"])
_NEG2C = dict(params={"bits": "list[int]"}, requires=["len(bits) >= 1", _NZ.format(x="bits")], returns="list[int]",
              ensures=["len(result) == len(bits)", _NZ.format(x="result"), "BE(result) == ite(BE(bits) == 0, 0, pow2(len(bits)) - BE(bits))"])
_RIPPLE_SEM = dict(params={"xs": "list[int]", "ys": "list[int]"}, requires=["len(xs) == len(ys)", "len(xs) >= 1", _NZ.format(x="xs"), _NZ.format(x="ys")],
                   returns="tuple[int,list[int]]",
                   ensures=["len(result[1]) == len(xs)", "result[0] != 0", "forall(j, 0, len(xs), result[1][j] != 0)",
                            "sum(j, 0, len(xs), wbit(result[1][j], j)) + wbit(result[0], len(xs)) == BE(xs) + BE(ys)"])
_LEN = "len(kbs)"
_SLOW = "sum(j, 0, len(kbs) - 1, wbit(ss[j], j))"
W["inequality_assertion"] = dict(
    id="inequality_assertion", target="sweetpea._internal.core.cnf:CNF._inequality_assertion", prop=["C10"],
    params={"assert_less_than": "bool", "k": "int", "in_list": "list[int]"},
    ghost={"U": ("bool", "True"), "KV0": ("list[int]", "[]"), "SB0": ("list[int]", "[]")},
    spec_funcs={"val": (["int"], "bool")},
    macros=_BE_MACROS, identity_calls=["Var", "Clause", "CNF"], identity_attrs=["value"],
    lemmas=["sum_ranges", "binary"], ms=45000,
    uses={"self._assert_unsatisfiable": dict(params={"in_list": "list[int]"}, ghost_after=["U = False"]),
          "int_to_binary": _INT_TO_BINARY, "self.pop_count": _POP_COUNT, "self.get_n_fresh": _GET_N_FRESH,
          "self.prepend#0": _PREPEND_DEFS, "self._make_same_length": _MSL,
          "self._convert_to_negative_twos_complement": _NEG2C, "self.ripple_carry": _RIPPLE_SEM,
          "self.set_to_one": dict(params={"variable": "int"}, ghost_after=["U = U and L(arg_variable)"])},
    requires=["k >= 0", "len(in_list) >= 1", "forall(j, 0, len(in_list), in_list[j] > 0)"],
    post_hints_at={-1: [
        "forall(j, 0, len(in_binary), in_binary[j] == 1 or in_binary[j] == -1)",
        "len(KV0) == len(in_binary) and forall(j, 0, len(KV0), KV0[j] > 0)",
        "len(assertion) == len(KV0)",
        "forall(i, 0, len(KV0), assertion[i] == KV0[i] * in_binary[i])",
        "forall(i, 0, len(KV0), assertion[i] == ite(in_binary[i] == 1, KV0[i], 0 - KV0[i]))",
        "forall(i, 0, len(KV0), L(assertion[i]))",
        "forall(i, 0, len(KV0), L(ite(in_binary[i] == 1, KV0[i], 0 - KV0[i])))",
        "forall(i, 0, len(KV0), iff(L(KV0[i]), in_binary[i] == 1))",
        "BE(KV0) == k",
        "k < pow2(len(in_binary))",
        "BE(k_vars) == k",
        "BE(sum_bits) == BE(SB0)",
        f"implies(BE(SB0) != {_CNT}, len(SB0) == len(in_binary) + 1 and {_CNT} >= pow2(len(in_binary)) and BE(SB0) >= pow2(len(in_binary)))",
        f"{_LEN} == len(nbs) and {_LEN} >= 1 and len(ss) == {_LEN}",
        # magnitudes: either both operands leave the top position free, or (no padding, LT only) the threshold is exactly the top power and the count at most that
        f"(BE(kbs) < pow2({_LEN} - 1) and BE(nbs) < pow2({_LEN} - 1)) or (BE(nbs) == pow2({_LEN} - 1) and BE(kbs) <= pow2({_LEN} - 1))",
        f"pow2({_LEN}) == 2 * pow2({_LEN} - 1)",
        f"sum(j, 0, {_LEN}, wbit(ss[j], j)) == {_SLOW} + wbit(ss[{_LEN} - 1], {_LEN} - 1)",
        f"0 <= {_SLOW} and {_SLOW} < pow2({_LEN} - 1)",
        f"iff(L(ss[{_LEN} - 1]), BE(kbs) < BE(nbs))",
        f"iff(U, BE(kbs) < BE(nbs))",
    ]},
    ensures=[f"implies(assert_less_than, iff(U, {_CNT} < k))", f"implies(not assert_less_than, iff(U, {_CNT} > k))"],
    assumptions=["pop_count (symbolic n) is used by contract: assumed here for all widths, checked per shape in the S tier (C10/C12) and on large n by C10.large; "
                 "_convert_to_negative_twos_complement's contract (value 2^L - x, 0 for 0) is proved (convert_to_negative_twos_complement), "
                 "_make_same_length's contract is proved (make_same_length), ripple_carry's sum "
                 "equation is the proved contract of C12.wp.ripple_carry (restricted to its semantic part)",
                 "the unit clauses that fix the fresh threshold variables to the bits of k are definitions (assumed), the final unit clause is collected in the ghost U"],
)

# ------------------------------------------------------------------ core/cnf.py: _make_same_length (C10; the contract assumed by inequality_assertion, proved here)
_ZERO_OUT = dict(params={"in_list": "list[int]"}, ensures=["forall(j, 0, len(in_list), not L(in_list[j]))"])      # unit clauses ~v on fresh variables: definitions
_MSL_ENS = ["len(xs) == len(ys)", "BE(xs) == BE(old(xs))", "BE(ys) == BE(old(ys))", _NZ.format(x="xs"), _NZ.format(x="ys"),
            "implies(len(old(xs)) == len(old(ys)), len(xs) == len(old(xs)))",
            "implies(len(old(xs)) != len(old(ys)), len(xs) == max(len(old(xs)), len(old(ys))) + 1 and not L(xs[0]) and not L(ys[0]))"]
_MSL["ensures"] = _MSL_ENS          # the callee contract used above, with old(...) for the values at the call
_XS_LOW = "sum(j, 0, len(old(xs)), wbit(xs[len(xs) - 1 - j], j))"
_YS_LOW = "sum(j, 0, len(old(ys)), wbit(ys[len(ys) - 1 - j], j))"
W["make_same_length"] = dict(
    id="make_same_length", target="sweetpea._internal.core.cnf:CNF._make_same_length", prop=["C10"],
    params={"xs": "list[int]", "ys": "list[int]"},
    spec_funcs={"val": (["int"], "bool")}, macros=_BE_MACROS, lemmas=["sum_ranges"],
    uses={"self.get_n_fresh": _GET_N_FRESH, "self.zero_out": _ZERO_OUT,
          "self._make_same_length": dict(params={"xs": "list[int]", "ys": "list[int]"}, modifies=["xs", "ys"],
                                         requires=[_NZ.format(x="xs"), _NZ.format(x="ys"), "len(xs) < len(ys)"],      # the recursive call swaps the arguments: strictly shorter first
                                         ensures=_MSL_ENS)},
    requires=[_NZ.format(x="xs"), _NZ.format(x="ys")],
    post_hints_at={-1: [     # the padding branch (falls off the end): the old bits keep their positions counted from the least significant end, the new ones are false
        "implies(len(old(xs)) < len(old(ys)), " + "len(xs) == len(ys) and len(xs) == len(old(ys)) + 1" + ")",
        "implies(len(old(xs)) < len(old(ys)), " + "forall(j, 0, len(old(xs)), xs[len(xs) - 1 - j] == old(xs)[len(old(xs)) - 1 - j])" + ")",
        "implies(len(old(xs)) < len(old(ys)), " + "forall(j, len(old(xs)), len(xs), not L(xs[len(xs) - 1 - j]))" + ")",
        "implies(len(old(xs)) < len(old(ys)), " + _XS_LOW + " == BE(old(xs))" + ")",
        "implies(len(old(xs)) < len(old(ys)), " + "forall(j, len(old(xs)), len(xs), wbit(xs[len(xs) - 1 - j], j) == 0)" + ")",
        "implies(len(old(xs)) < len(old(ys)), " + "BE(xs) == " + _XS_LOW + ")",
        "implies(len(old(xs)) < len(old(ys)), " + "forall(j, 0, len(old(ys)), ys[len(ys) - 1 - j] == old(ys)[len(old(ys)) - 1 - j])" + ")",
        "implies(len(old(xs)) < len(old(ys)), " + _YS_LOW + " == BE(old(ys))" + ")",
        "implies(len(old(xs)) < len(old(ys)), " + "forall(j, len(old(ys)), len(ys), wbit(ys[len(ys) - 1 - j], j) == 0)" + ")",
        "implies(len(old(xs)) < len(old(ys)), " + "BE(ys) == " + _YS_LOW + ")",
    ]},
    ensures=_MSL_ENS,
)

# ------------------------------------------------------------------ combinatorics.py: compute_jth_permutation_prefix (C13) — composition of two proved contracts
W["compute_jth_permutation_prefix"] = dict(
    id="compute_jth_permutation_prefix", target="sweetpea._internal.combinatorics:compute_jth_permutation_prefix", prop=["C13"],
    params={"n": "int", "m": "int", "j": "int"},
    uses={"compute_jth_inversion_sequence": dict(params={"n": "int", "m": "int", "j": "int"}, requires=["0 <= m", "m <= n", "j >= 0"], returns="list[int]",
                                                 ensures=["len(result) == m", "forall(t, 0, m, 0 <= result[t] and result[t] < n - t)"]),
          "construct_permutation": dict(params={"inversion_sequence": "list[int]", "orig_n": "int"},
                                        requires=["orig_n >= 0", "len(inversion_sequence) <= orig_n",
                                                  "forall(t, 0, len(inversion_sequence), 0 <= inversion_sequence[t] and inversion_sequence[t] < orig_n - t)"],
                                        returns="list[int]",
                                        ensures=["len(result) == len(inversion_sequence)", "forall(t, 0, len(result), 0 <= result[t] and result[t] < orig_n)",
                                                 "forall(s, 0, len(result), forall(t, 0, len(result), implies(s != t, result[s] != result[t])))"])},
    requires=["0 <= m", "m <= n", "j >= 0"],
    ensures=["len(result) == m", "forall(t, 0, m, 0 <= result[t] and result[t] < n)",
             "forall(s, 0, m, forall(t, 0, m, implies(s != t, result[s] != result[t])))"],
    native=dict(call=lambda f, n, m, j: f(n, m, j),
                domain=lambda: ({"n": n, "m": m, "j": j} for n in range(0, 6) for m in range(0, n + 1) for j in range(0, _math.factorial(n) // _math.factorial(n - m))),
                ghost_post=lambda res, n, m, j: {}),
    assumptions=["callee contracts are the proved contracts of compute_jth_inversion_sequence (its range clauses) and construct_permutation"],
)

# ------------------------------------------------------------------ main.py: _experiments_to_tuples (C20)
# experiments: a list of dicts {factor name: list of level names} (each dict an opaque object with accessor functions); the result is, per experiment, the
# list of trials as tuples in the order of `keys`: result[e][t][j] == experiments[e][keys[j]][t], as many trials as the shortest selected column.
def _ett_domain():
    import itertools as it
    for ncols in (0, 1, 2, 3):
        for T in (0, 1, 3):
            for nexp in (0, 1, 2):
                names = ["a", "b", "c"][:ncols]
                exps = [{n: [f"{n}{e}{t}" for t in range(T + (1 if (n == "b" and e == 0) else 0))] for n in ["a", "b", "c"]} for e in range(nexp)]
                yield dict(experiments=exps, keys=names)


def _ett_check(res, experiments, keys):
    want = [list(zip(*[e[k] for k in keys])) for e in experiments]
    ok = len(res) == len(experiments) and all(list(map(tuple, r)) == w for r, w in zip(res, want))
    for e, r in zip(experiments, res):
        for t, row in enumerate(r):
            for j, k in enumerate(keys):
                ok = ok and row[j] == e[k][t]
    return None if ok else f"tuples {res!r} for experiments {experiments!r} / keys {keys}"


W["experiments_to_tuples"] = dict(
    id="experiments_to_tuples", target="sweetpea._internal.main:_experiments_to_tuples", prop=["C20"],
    params={"experiments": "list[obj]", "keys": "list[obj]"},
    boxed_dicts=True, local_types={"tuple_lists": "list[list[obj]]"},
    requires=["forall(e, 0, len(experiments), forall(j, 0, len(keys), keys[j] in experiments[e]))"] if False else [],
    loops={0: dict(index="ei", invariant=[
        "len(tuple_lists) == ei",
        "forall(e, 0, ei, forall(j, 0, len(keys), len(tuple_lists[e]) <= len(experiments[e][keys[j]])))",
        "forall(e, 0, ei, implies(len(keys) > 0, exists(j, 0, len(keys), len(tuple_lists[e]) == len(experiments[e][keys[j]]))))",
        "forall(e, 0, ei, implies(len(keys) == 0, len(tuple_lists[e]) == 0))",
        "forall(e, 0, ei, forall(t, 0, len(tuple_lists[e]), forall(j, 0, len(keys), tuple_lists[e][t][j] == experiments[e][keys[j]][t])))"])},
    ensures=["len(result) == len(experiments)",
             "forall(e, 0, len(result), forall(j, 0, len(keys), len(result[e]) <= len(experiments[e][keys[j]])))",
             "forall(e, 0, len(result), implies(len(keys) > 0, exists(j, 0, len(keys), len(result[e]) == len(experiments[e][keys[j]]))))",
             "forall(e, 0, len(result), forall(t, 0, len(result[e]), forall(j, 0, len(keys), result[e][t][j] == experiments[e][keys[j]][t])))"],
    native=dict(call=lambda f, experiments, keys: f(experiments, keys), domain=_ett_domain, check=_ett_check, skip_requires=True, skip_ensures=True),
    assumptions=["builtin contract of zip(*rows): min(len(row)) tuples, tuple t holds rows[j][t] at position j (DESIGN 3.4); dict lookups by key are total here "
                 "(a missing key raises KeyError in the real function: the safety obligation `dict key present` is discharged from the precondition when given, "
                 "otherwise reported)"],
)
W["experiments_to_tuples"]["requires"] = ["forall(e, 0, len(experiments), forall(j, 0, len(keys), keys[j] in experiments[e]))"]


def _etd_check(res, experiments, keys):
    ok = len(res) == len(experiments)
    for e, r in zip(experiments, res):
        T = min((len(e[k]) for k in keys), default=0)
        ok = ok and len(r) == T
        for t, row in enumerate(r):
            ok = ok and isinstance(row, dict) and list(row) == list(dict.fromkeys(keys)) and all(row[k] == e[k][t] for k in keys)
    return None if ok else f"dicts {res!r} for experiments {experiments!r} / keys {keys}"


W["experiments_to_dicts"] = dict(
    id="experiments_to_dicts", target="sweetpea._internal.main:_experiments_to_dicts", prop=["C20"],
    params={"experiments": "list[obj]", "keys": "list[obj]"},
    boxed_dicts=True, local_types={"tuple_lists": "list[list[obj]]"},
    requires=["forall(e, 0, len(experiments), forall(j, 0, len(keys), keys[j] in experiments[e]))"],
    loops={0: dict(index="ei", invariant=[
        "len(tuple_lists) == ei",
        "forall(e, 0, ei, forall(j, 0, len(keys), len(tuple_lists[e]) <= len(experiments[e][keys[j]])))",
        "forall(e, 0, ei, implies(len(keys) > 0, exists(j, 0, len(keys), len(tuple_lists[e]) == len(experiments[e][keys[j]]))))",
        "forall(e, 0, ei, implies(len(keys) == 0, len(tuple_lists[e]) == 0))",
        "forall(e, 0, ei, forall(t, 0, len(tuple_lists[e]), forall(j, 0, len(keys), haskey(tuple_lists[e][t], keys[j]) and dictval(tuple_lists[e][t], keys[j]) == experiments[e][keys[j]][t])))",
        "forall(e, 0, ei, forall(t, 0, len(tuple_lists[e]), forallo(k, implies(haskey(tuple_lists[e][t], k), k in keys))))"])},
    ensures=["len(result) == len(experiments)",
             "forall(e, 0, len(result), forall(j, 0, len(keys), len(result[e]) <= len(experiments[e][keys[j]])))",
             "forall(e, 0, len(result), implies(len(keys) > 0, exists(j, 0, len(keys), len(result[e]) == len(experiments[e][keys[j]]))))",
             "forall(e, 0, len(result), forall(t, 0, len(result[e]), forall(j, 0, len(keys), haskey(result[e][t], keys[j]) and dictval(result[e][t], keys[j]) == experiments[e][keys[j]][t])))",
             "forall(e, 0, len(result), forall(t, 0, len(result[e]), forallo(k, implies(haskey(result[e][t], k), k in keys))))"],
    native=dict(call=lambda f, experiments, keys: f(experiments, keys), domain=_ett_domain, check=_etd_check, skip_requires=True, skip_ensures=True),
    assumptions=["builtin contracts of zip(*rows) and dict(zip(keys, tuple)) (DESIGN 3.4): the dict has exactly the given keys and the value under keys[j] is the tuple's "
                 "entry at some position j2 >= j holding the same key (the last one)"],
)


# ------------------------------------------------------------------ cnf.py: CNF._convert_to_negative_twos_complement (C10) — the callee contract _NEG2C, now proved
# sem(c): "the assignment val satisfies the CNF object c"; building a formula and prepending it makes it part of the final formula, which val satisfies
# (the scheme of 11.6: definitional clauses enter as postconditions of the callee contracts)
_LB = "len(bits)"
W["convert_to_negative_twos_complement"] = dict(
    id="convert_to_negative_twos_complement", target="sweetpea._internal.core.cnf:CNF._convert_to_negative_twos_complement", prop=["C10"],
    params={"bits": "list[int]"},
    ghost={"SS0": ("list[int]", "[]"), "C0": ("int", "1")},
    spec_funcs={"val": (["int"], "bool"), "sem": (["obj"], "bool")}, macros=_BE_MACROS, lemmas=["sum_ranges", "binary"], ms=45000,
    identity_calls=["Var"], identity_attrs=["value"], invert_is_neg=True,
    uses={"self.get_n_fresh": _GET_N_FRESH,
          "CNF": dict(params={}, returns="obj", ensures=["sem(result)"]),
          "CNF.xnor_vars": dict(params={"a": "int", "b": "int"}, requires=["a != 0", "b != 0"], returns="obj", ensures=["iff(sem(result), iff(L(a), L(b)))"]),
          "obj.__add__": dict(params={"a": "obj", "b": "obj"}, returns="obj", ensures=["iff(sem(result), sem(a) and sem(b))"]),
          "self.prepend": dict(params={"cnf": "obj"}, ensures=["sem(cnf)"]),
          "self.zero_out": _ZERO_OUT,
          "self.set_to_one": dict(params={"variable": "int"}, requires=["variable != 0"], ensures=["L(variable)"]),
          "self.ripple_carry": dict(_RIPPLE_SEM, ghost_after=["SS0 = call_result[1]", "C0 = call_result[0]"])},
    requires=_NEG2C["requires"],
    loops={0: dict(index="it", invariant=[
        "len(flipped_bits) == len(bits)", "forall(j, 0, len(flipped_bits), flipped_bits[j] > 0)",
        "iff(sem(flipped_cnf), forall(j, 0, it, iff(L(flipped_bits[j]), not L(bits[j]))))"])},
    post_hints=[
        f"forall(j, 0, {_LB}, iff(L(flipped_bits[j]), not L(bits[j])))",
        f"forall(j, 0, {_LB}, wbit(flipped_bits[{_LB} - 1 - j], j) + wbit(bits[{_LB} - 1 - j], j) == pow2(j))",
        f"len(flipped_bits) == {_LB} and len(one_vars) == {_LB} and len(SS0) == {_LB} and len(ss) == {_LB}",
        f"BE(flipped_bits) + BE(bits) == pow2({_LB}) - 1",
        "forall(j, 1, len(one_vars), wbit(one_vars[len(one_vars) - 1 - j], j) == 0)",
        "sum(j, 0, 1, wbit(one_vars[len(one_vars) - 1 - j], j)) == 1",
        "sum(j, 1, len(one_vars), wbit(one_vars[len(one_vars) - 1 - j], j)) == 0",
        "BE(one_vars) == 1",
        f"sum(j, 0, {_LB}, wbit(SS0[j], j)) + wbit(C0, {_LB}) == pow2({_LB}) - BE(bits)",
        f"0 <= sum(j, 0, {_LB}, wbit(SS0[j], j)) and sum(j, 0, {_LB}, wbit(SS0[j], j)) < pow2({_LB})",
        f"0 <= BE(bits) and BE(bits) < pow2({_LB})",
        f"forall(j, 0, {_LB}, ss[{_LB} - 1 - j] == SS0[j])",
        f"BE(ss) == sum(j, 0, {_LB}, wbit(SS0[j], j))",
        f"wbit(C0, {_LB}) == 0 or wbit(C0, {_LB}) == pow2({_LB})",
    ],
    ensures=_NEG2C["ensures"],
    assumptions=["callee contracts assumed here and checked per shape in the S tier of C10/C12: CNF.xnor_vars (two clauses, a <-> b), CNF.__add__ (conjunction), zero_out, "
                 "set_to_one, get_n_fresh; ripple_carry's contract is proved (C12.wp.ripple_carry); `~Var` is Var(-value) (cnf.py Var.__invert__), a generator "
                 "expression consumed once is read as the list of its elements"],
)


# ------------------------------------------------------------------ check_mismatch.py: combinations_mismatched_weights (C17)
# The key of trial t, tuple([sample[f][t] for f in crossing]), is abstracted to KEY(t) (some function of t for a fixed sample and crossing); CNT(k, n) counts the
# trials among the first n of the window whose key is k; CW is combination_weight.  Statement: the result is 0 iff every combination that occurs in the window
# occurs exactly (with or_less: at most) combination_weight * weight times — what sample_mismatch_crossing relies on when it compares the result with 0.
_CM_N = "max(end - start, 0)"
_CM_OK = f"ite(or_less, CNT({{k}}, {_CM_N}) <= CW({{k}}) * weight, CNT({{k}}, {_CM_N}) == CW({{k}}) * weight)"


def _cm_domain():
    import itertools as it

    class Lv:
        def __init__(self, n, w):
            self.name, self.weight = n, w

        def __repr__(self):
            return f"{self.name}/{self.weight}"
    a = [Lv("a1", 1), Lv("a2", 2)]
    b = [Lv("b1", 1), Lv("b2", 1)]
    for T in (0, 1, 2, 3, 4):
        for sa in it.product(a, repeat=T):
            for sb in it.islice(it.product(b, repeat=T), 0, 6):
                for (start, end) in ((0, T), (1, T), (0, max(T - 1, 0))):
                    for weight in (1, 2):
                        for ol in (False, True):
                            yield dict(start=start, end=end, weight=weight, crossing=["A", "B"], sample={"A": list(sa), "B": list(sb)}, or_less=ol)


def _cm_check(res, start, end, weight, crossing, sample, or_less):
    from collections import Counter
    cnt = Counter(tuple(sample[f][t] for f in crossing) for t in range(start, end))
    ok_all = all((c <= k[0].weight * k[1].weight * weight) if or_less else (c == k[0].weight * k[1].weight * weight) for k, c in cnt.items())
    return None if (res >= 0 and (res == 0) == ok_all) else f"result {res}, counts {dict(cnt)}, weight {weight}, or_less {or_less}"


W["combinations_mismatched_weights"] = dict(
    id="combinations_mismatched_weights", target="sweetpea._internal.check_mismatch:combinations_mismatched_weights", prop=["C17"],
    params={"start": "int", "end": "int", "weight": "int", "crossing": "list[obj]", "sample": "obj", "or_less": "bool"},
    spec_funcs={"KEY": (["int"], "obj"), "CW": (["obj"], "int")},
    spec_defs={"CNT": dict(params={"k": "obj", "n": "int"}, returns="int", body="ite(n <= 0, 0, CNT(k, n - 1) + ite(KEY(start + n - 1) == k, 1, 0))")},
    opaque={"tuple([sample[f][t] for f in crossing])": "KEY(t)"},
    dict_types={"{}": "dict[obj,int]"},
    uses={"combination_weight": dict(params={"levels": "obj"}, returns="int", ensures=["result == CW(levels)"])},
    loops={0: dict(index="it", invariant=[
               "forall(u, start, start + it, KEY(u) in combos)",
               "forallo(k, implies(k in combos, exists(u, start, start + it, KEY(u) == k)))",
               "forallo(k, implies(k in combos, combos[k] == CNT(k, it)))",
               "forallo(k, implies(not (k in combos), CNT(k, it) == 0))"]),
           1: dict(index="ix", invariant=[
               "mismatch >= 0",
               "iff(mismatch == 0, forall(i, 0, ix, " + _CM_OK.format(k="combos_keys[i]") + "))"])},
    post_hints=[
        "it == " + _CM_N,
        "forall(t, start, end, KEY(t) in combos)",
        "forall(t, start, end, exists(i, 0, len(combos_keys), combos_keys[i] == KEY(t)))",
        "forall(i, 0, len(combos_keys), exists(t, start, end, KEY(t) == combos_keys[i]))",
        "iff(mismatch == 0, forall(i, 0, len(combos_keys), " + _CM_OK.format(k="combos_keys[i]") + "))",
        "implies(forall(i, 0, len(combos_keys), " + _CM_OK.format(k="combos_keys[i]") + "), forall(t, start, end, " + _CM_OK.format(k="KEY(t)") + "))",
        "implies(forall(t, start, end, " + _CM_OK.format(k="KEY(t)") + "), forall(i, 0, len(combos_keys), " + _CM_OK.format(k="combos_keys[i]") + "))",
    ],
    ensures=["result >= 0",
             "iff(result == 0, forall(t, start, end, " + _CM_OK.format(k="KEY(t)") + "))"],
    native=dict(call=lambda f, start, end, weight, crossing, sample, or_less: f(start, end, weight, crossing, sample, or_less),
                domain=_cm_domain, check=_cm_check, skip_requires=True, skip_ensures=True),
    assumptions=["the trial key tuple([sample[f][t] for f in crossing]) is abstracted to an uninterpreted function of t; dict iteration is some repetition-free "
                 "enumeration of the keys; combination_weight is an uninterpreted function of the key (its product-of-weights body is 3 lines, checked natively)"],
)
