"""Contracts for pyvc.wp (plain data).  Expressions are Python expressions over the parameters, `result`,
`old(...)`, ghost variables and the spec vocabulary forall/exists/sum/implies/iff/ite/pow2/is_none.
Loops are keyed by ordinal within the function (source order), never by line number."""

W = {}

# ------------------------------------------------------------------ core/binary.py (C10)
W["int_to_binary"] = dict(
    id="int_to_binary", target="sweetpea._internal.core.binary:int_to_binary", prop=["C10"],
    params={"value": "int"},
    requires=["value >= 0"],
    ghost={"P": ("int", "1")},
    loops={0: dict(
        invariant=["value >= 0", "P == pow2(len(output))",
                   "old(value) == value * P + sum(i, 0, len(output), ite(output[i] == 1, pow2(i), 0))",
                   "forall(i, 0, len(output), output[i] == 1 or output[i] == -1)",
                   "implies(value == 0 and len(output) > 0, output[len(output) - 1] == 1)",
                   "sum(i, 0, len(output), ite(output[i] == 1, pow2(i), 0)) >= 0",
                   "implies(len(output) > 0 and output[len(output) - 1] == 1, sum(i, 0, len(output), ite(output[i] == 1, pow2(i), 0)) >= 1)"],
        decreases="value",
        ghost_end=["P = P * 2"])},
    ensures=["forall(i, 0, len(result), result[i] == 1 or result[i] == -1)",
             "old(value) == sum(i, 0, len(result), ite(result[len(result) - 1 - i] == 1, pow2(i), 0))",
             "implies(old(value) > 0, len(result) > 0 and result[0] == 1)",
             "implies(old(value) == 0, len(result) == 0)"],
    native=dict(call=lambda f, value: f(value), domain=lambda: ({"value": v} for v in range(0, 300))),
)

# ------------------------------------------------------------------ combinatorics.py (C13)
import itertools as _it
import math as _math


def _prod(xs):
    p = 1
    for x in xs:
        p *= x
    return p


_RANK = "sum(j, 0, len(components), components[j] * W[j])"
W["extract_components"] = dict(
    id="extract_components", target="sweetpea._internal.combinatorics:extract_components", prop=["C13", "C05"],
    params={"sizes": "list[int]", "n": "int"},
    requires=["n >= 0", "forall(i, 0, len(sizes), sizes[i] >= 1)"],
    # ghost: P = product of the sizes consumed so far, W[j] = product of sizes[0..j) (the mixed-radix weight of digit j)
    ghost={"P": ("int", "1"), "W": ("list[int]", "[]")},
    loops={0: dict(
        index="i",
        invariant=["len(components) == i", "len(W) == i", "P >= 1", "n >= 0",
                   "old(n) == n * P + " + _RANK,
                   "0 <= " + _RANK, _RANK + " < P",
                   "forall(j, 0, i, 0 <= components[j] and components[j] < sizes[j])",
                   "implies(i > 0, W[0] == 1)", "forall(j, 0, i - 1, W[j + 1] == W[j] * sizes[j])",
                   "implies(i > 0, P == W[i - 1] * sizes[i - 1])", "implies(i == 0, P == 1)"],
        ghost_update=["W.append(P)"],
        ghost_end=["P = P * s"],
        hints=[_RANK + " == pre(" + _RANK + ") + (pre(n) % s) * pre(P)",
               "pre(n) == n * s + pre(n) % s", "n * P == n * s * pre(P)",
               "(pre(n) % s) * pre(P) >= 0", "(pre(n) % s) * pre(P) <= (s - 1) * pre(P)"])},
    ensures=["len(result) == len(sizes)",
             "forall(j, 0, len(sizes), 0 <= result[j] and result[j] < sizes[j])",
             # rank(result) + (n div prod) * prod == n  with W the mixed-radix weights and P = prod(sizes)
             "len(W) == len(sizes)", "implies(len(sizes) > 0, W[0] == 1)", "forall(j, 0, len(sizes) - 1, W[j + 1] == W[j] * sizes[j])",
             "implies(len(sizes) > 0, P == W[len(sizes) - 1] * sizes[len(sizes) - 1])", "implies(len(sizes) == 0, P == 1)",
             "old(n) == n * P + sum(j, 0, len(result), result[j] * W[j])",
             "0 <= sum(j, 0, len(result), result[j] * W[j])", "sum(j, 0, len(result), result[j] * W[j]) < P",
             "implies(old(n) < P, old(n) == sum(j, 0, len(result), result[j] * W[j]))"],
    native=dict(call=lambda f, sizes, n: f(list(sizes), n),
                domain=lambda: ({"sizes": list(s), "n": n} for L in range(0, 4) for s in _it.product([1, 2, 3], repeat=L) for n in range(0, 2 * _prod(s) + 2)),
                ghost_post=lambda res, sizes, n: {"W": [_prod(sizes[:j]) for j in range(len(sizes))], "P": _prod(sizes), "n": n // _prod(sizes)}),
)

# compute_jth_combination(l, n, j): digits base n, most significant first
_BEV = "sum(t, 0, l - 1 - k, combination[l - 1 - t] * Wn[t])"
W["compute_jth_combination"] = dict(
    id="compute_jth_combination", target="sweetpea._internal.combinatorics:compute_jth_combination", prop=["C13"],
    params={"l": "int", "n": "int", "j": "int"},
    requires=["l >= 0", "n >= 1", "j >= 0"],
    ghost={"P": ("int", "1"), "Wn": ("list[int]", "[]")},        # Wn[t] = n^t
    loops={0: dict(
        index="i",
        invariant=["len(combination) == l", "len(Wn) == i", "P >= 1", "j >= 0",
                   "forall(t, 0, i, Wn[t] >= 1)", "implies(i > 0, Wn[0] == 1)", "forall(t, 0, i - 1, Wn[t + 1] == Wn[t] * n)",
                   "implies(i > 0, P == Wn[i - 1] * n)", "implies(i == 0, P == 1)",
                   "old(j) == j * P + sum(t, 0, i, combination[l - 1 - t] * Wn[t])",
                   "0 <= sum(t, 0, i, combination[l - 1 - t] * Wn[t])", "sum(t, 0, i, combination[l - 1 - t] * Wn[t]) < P",
                   "forall(t, 0, i, 0 <= combination[l - 1 - t] and combination[l - 1 - t] < n)"],
        ghost_update=["Wn.append(P)"],
        ghost_end=["P = P * n"],
        hints=["k == l - i", "Wn[i - 1] == pre(P)", "P == pre(P) * n", "pre(j) == j * n + pre(j) % n",
               "(pre(j) % n) * pre(P) >= 0", "(pre(j) % n) * pre(P) <= (n - 1) * pre(P)", "j * P == j * n * pre(P)",
               "sum(t, 0, i, combination[l - 1 - t] * Wn[t]) == pre(sum(t, 0, i, combination[l - 1 - t] * Wn[t])) + (pre(j) % n) * pre(P)"])},
    ensures=["len(result) == l", "forall(t, 0, l, 0 <= result[t] and result[t] < n)",
             "len(Wn) == l", "implies(l > 0, Wn[0] == 1)", "forall(t, 0, l - 1, Wn[t + 1] == Wn[t] * n)",
             "implies(l > 0, P == Wn[l - 1] * n)", "implies(l == 0, P == 1)",
             "old(j) == j * P + sum(t, 0, l, result[l - 1 - t] * Wn[t])",
             "0 <= sum(t, 0, l, result[l - 1 - t] * Wn[t])", "sum(t, 0, l, result[l - 1 - t] * Wn[t]) < P",
             "implies(old(j) < P, old(j) == sum(t, 0, l, result[l - 1 - t] * Wn[t]))"],
    native=dict(call=lambda f, l, n, j: f(l, n, j),
                domain=lambda: ({"l": l, "n": n, "j": j} for l in range(0, 4) for n in range(1, 4) for j in range(0, 2 * n ** l + 2)),
                ghost_post=lambda res, l, n, j: {"Wn": [n ** t for t in range(l)], "P": n ** l, "j": j // (n ** l)}),
)

# compute_jth_inversion_sequence(n, m, j): falling-factorial radix n, n-1, ..., n-m+1
W["compute_jth_inversion_sequence"] = dict(
    id="compute_jth_inversion_sequence", target="sweetpea._internal.combinatorics:compute_jth_inversion_sequence", prop=["C13"],
    params={"n": "int", "m": "int", "j": "int"},
    requires=["0 <= m", "m <= n", "j >= 0"],
    ghost={"P": ("int", "1"), "Wf": ("list[int]", "[]")},        # Wf[t] = n (n-1) ... (n-t+1)
    loops={0: dict(
        index="i",
        invariant=["len(inversion) == i", "len(Wf) == i", "P >= 1", "j >= 0", "i <= m",
                   "implies(i > 0, Wf[0] == 1)", "forall(t, 0, i - 1, Wf[t + 1] == Wf[t] * (n - t))",
                   "implies(i > 0, P == Wf[i - 1] * (n - (i - 1)))", "implies(i == 0, P == 1)",
                   "old(j) == j * P + sum(t, 0, i, inversion[t] * Wf[t])",
                   "0 <= sum(t, 0, i, inversion[t] * Wf[t])", "sum(t, 0, i, inversion[t] * Wf[t]) < P",
                   "forall(t, 0, i, 0 <= inversion[t] and inversion[t] < n - t)"],
        ghost_update=["Wf.append(P)"],
        ghost_end=["P = P * k"],
        hints=["k == n - (i - 1)", "Wf[i - 1] == pre(P)", "P == pre(P) * k",
               "implies(i > 1, Wf[i - 1] == Wf[i - 2] * (n - (i - 2)))",
               "(pre(j) % k) * pre(P) >= 0", "(pre(j) % k) * pre(P) <= (k - 1) * pre(P)", "j * P == j * k * pre(P)",
               "sum(t, 0, i, inversion[t] * Wf[t]) == pre(sum(t, 0, i, inversion[t] * Wf[t])) + (pre(j) % k) * pre(P)"])},
    ensures=["len(result) == m", "forall(t, 0, m, 0 <= result[t] and result[t] < n - t)",
             "len(Wf) == m", "implies(m > 0, Wf[0] == 1)", "forall(t, 0, m - 1, Wf[t + 1] == Wf[t] * (n - t))",
             "implies(m > 0, P == Wf[m - 1] * (n - (m - 1)))", "implies(m == 0, P == 1)",
             "old(j) == j * P + sum(t, 0, m, result[t] * Wf[t])",
             "0 <= sum(t, 0, m, result[t] * Wf[t])", "sum(t, 0, m, result[t] * Wf[t]) < P",
             "implies(old(j) < P, old(j) == sum(t, 0, m, result[t] * Wf[t]))"],
    native=dict(call=lambda f, n, m, j: f(n, m, j),
                domain=lambda: ({"n": n, "m": m, "j": j} for n in range(0, 5) for m in range(0, n + 1)
                                for j in range(0, 2 * (_math.factorial(n) // _math.factorial(n - m)) + 2)),
                ghost_post=lambda res, n, m, j: {"Wf": [_math.factorial(n) // _math.factorial(n - t) for t in range(m)],
                                                 "P": _math.factorial(n) // _math.factorial(n - m), "j": j // (_math.factorial(n) // _math.factorial(n - m))}),
)
