"""Contracts for pyvc.wp (plain data).  Expressions are Python expressions over the parameters, `result`,
`old(...)`, ghost variables and the spec vocabulary forall/exists/sum/implies/iff/ite/pow2/is_none.
Loops are keyed by ordinal within the function (source order), never by line number."""

W = {}

# ------------------------------------------------------------------ core/binary.py (C10)
W["int_to_binary"] = dict(
    id="int_to_binary", target="sweetpea._internal.core.binary:int_to_binary", prop=["C10"],
    params={"value": "int"},
    requires=["value >= 0"],
    ghost={"P": ("int", "1")},
    loops={0: dict(
        invariant=["value >= 0", "P == pow2(len(output))",
                   "old(value) == value * P + sum(i, 0, len(output), ite(output[i] == 1, pow2(i), 0))",
                   "forall(i, 0, len(output), output[i] == 1 or output[i] == -1)",
                   "implies(value == 0 and len(output) > 0, output[len(output) - 1] == 1)",
                   "sum(i, 0, len(output), ite(output[i] == 1, pow2(i), 0)) >= 0",
                   "implies(len(output) > 0 and output[len(output) - 1] == 1, sum(i, 0, len(output), ite(output[i] == 1, pow2(i), 0)) >= 1)"],
        decreases="value",
        ghost_end=["P = P * 2"])},
    ensures=["forall(i, 0, len(result), result[i] == 1 or result[i] == -1)",
             "old(value) == sum(i, 0, len(result), ite(result[len(result) - 1 - i] == 1, pow2(i), 0))",
             "implies(old(value) > 0, len(result) > 0 and result[0] == 1)",
             "implies(old(value) == 0, len(result) == 0)"],
    native=dict(call=lambda f, value: f(value), domain=lambda: ({"value": v} for v in range(0, 300))),
)
