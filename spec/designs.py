"""The bounded design space D (DESIGN 3.3): a curated core covering every constraint class, derivation kind and
combinator, plus seeded random draws from the same grammar.  Every design is plain data (spec.model format)."""
from __future__ import annotations

import copy
import itertools
import random

from spec.model import fac, derive

A2 = ["r", "g"]
A3 = ["r", "g", "b"]


def D(name, factors, block, tags=()):
    return {"name": name, "factors": factors, "block": block, "tags": list(tags)}


def cross(design, crossing, constraints=(), rcc=True):
    return {"kind": "cross", "design": list(design), "crossing": list(crossing), "constraints": [list(c) for c in constraints], "rcc": rcc}


def multi(design, crossings, constraints=(), rcc=True, mode="equal", alignment="equal preamble"):
    return {"kind": "multi", "design": list(design), "crossings": [list(c) for c in crossings], "constraints": [list(c) for c in constraints],
            "rcc": rcc, "mode": mode, "alignment": alignment}


def repeat(block, constraints=()):
    return {"kind": "repeat", "block": block, "constraints": [list(c) for c in constraints]}


def merge(blocks, constraints=(), mode=None, alignment=None):
    d = {"kind": "merge", "blocks": list(blocks), "constraints": [list(c) for c in constraints]}
    if mode:
        d["mode"] = mode
    if alignment:
        d["alignment"] = alignment
    return d


def nest(outer, inner, constraints=()):
    return {"kind": "nest", "outer": outer, "inner": inner, "constraints": [list(c) for c in constraints]}


# ------------------------------------------------------------------ derived-factor helpers
def within_eq(name, a, b, la, lb):
    return fac(name, ["same", "diff"], derive("within", [a, b], fn=lambda l, x, y: (x[0] == y[0]) == (l == "same") if None not in (x[0], y[0]) else False,
                                              levels=["same", "diff"], dep_levels=[la, lb]))


def transition_rep(name, a, la):
    return fac(name, ["rep", "sw"], derive("transition", [a], fn=lambda l, x: None not in x and ((x[0] == x[1]) == (l == "rep")),
                                           levels=["rep", "sw"], dep_levels=[la]))


def transition_dir(name, a, la):
    """direction-sensitive transition over a two-level factor: 'up' = first level then second, 'down' = second then first, 'same'"""
    lo, hi = la[0], la[1]
    return fac(name, ["up", "down", "same"], derive("transition", [a], fn=lambda l, x: None not in x and (
        (l == "same" and x[0] == x[1]) or (l == "up" and x[0] == lo and x[1] == hi) or (l == "down" and x[0] == hi and x[1] == lo)),
        levels=["up", "down", "same"], dep_levels=[la]))


def window_last(name, a, la, width, stride=1, start=None, first="r"):
    """level 'hit' iff the oldest trial of the window has level `first` (None counts as not)"""
    return fac(name, ["hit", "miss"], derive("window", [a], fn=lambda l, x: (x[0] == first) == (l == "hit"), width=width, stride=stride, start=start,
                                             levels=["hit", "miss"], dep_levels=[la]))


def curated():
    out = []
    c2, d2, e3 = fac("c", A2), fac("d", ["x", "y"]), fac("e", A3)
    # --- plain crossings
    out.append(D("cross-2", [c2], cross(["c"], ["c"])))
    out.append(D("cross-2x2", [c2, d2], cross(["c", "d"], ["c", "d"])))
    out.append(D("cross-3", [e3], cross(["e"], ["e"])))
    out.append(D("cross-2+uncrossed", [c2, d2], cross(["c", "d"], ["c"])))
    out.append(D("cross-3+uncrossed2", [e3, d2], cross(["e", "d"], ["e"])))
    # --- weights
    out.append(D("w-crossed", [fac("c", [["r", 2], ["g", 1]])], cross(["c"], ["c"]), ["weight"]))
    out.append(D("w-crossed-2x2", [fac("c", [["r", 2], ["g", 1]]), d2], cross(["c", "d"], ["c", "d"]), ["weight"]))
    out.append(D("w-uncrossed", [c2, fac("d", [["x", 2], ["y", 1]])], cross(["c", "d"], ["c"]), ["weight", "weight-uncrossed"]))
    # --- MinimumTrials
    out.append(D("min-5-of-2", [c2], cross(["c"], ["c"], [["MinimumTrials", 5]]), ["mintrials"]))
    out.append(D("min-4-of-2", [c2], cross(["c"], ["c"], [["MinimumTrials", 4]]), ["mintrials"]))
    out.append(D("min-5-of-2x2", [c2, d2], cross(["c", "d"], ["c", "d"], [["MinimumTrials", 5]]), ["mintrials"]))
    out.append(D("min-3-of-3", [e3], cross(["e"], ["e"], [["MinimumTrials", 3]]), ["mintrials"]))
    out.append(D("min-5-uncrossed-first", [c2, d2], cross(["c", "d"], ["d"], [["MinimumTrials", 5]]), ["mintrials"]))
    out.append(D("min-4-uncrossed-first-3", [e3, d2], cross(["e", "d"], ["d"], [["MinimumTrials", 4]]), ["mintrials"]))
    # --- each constraint class on a plain crossing
    for k in (1, 2):
        out.append(D(f"atmost{k}-c", [c2, d2], cross(["c", "d"], ["c", "d"], [["AtMostKInARow", k, "c", "r"]]), ["atmost"]))
        out.append(D(f"atmost{k}-factor", [c2, d2], cross(["c", "d"], ["c", "d"], [["AtMostKInARow", k, "c", None]]), ["atmost"]))
    out.append(D("atmost1-uncrossed", [c2, d2], cross(["c", "d"], ["c"], [["AtMostKInARow", 1, "d", "x"], ["MinimumTrials", 4]]), ["atmost", "mintrials"]))
    out.append(D("atleast2-c", [c2, d2], cross(["c", "d"], ["c", "d"], [["AtLeastKInARow", 2, "c", "r"]]), ["atleast"]))
    out.append(D("atleast2-uncrossed", [c2, d2], cross(["c", "d"], ["c"], [["AtLeastKInARow", 2, "d", "x"], ["MinimumTrials", 4]]), ["atleast", "mintrials"]))
    out.append(D("atleast1-c", [c2, d2], cross(["c", "d"], ["c", "d"], [["AtLeastKInARow", 1, "c", "r"]]), ["atleast"]))
    out.append(D("atleast3-too-long", [c2], cross(["c"], ["c"], [["AtLeastKInARow", 3, "c", "r"]]), ["atleast", "k>block"]))
    out.append(D("atleast3-min7", [c2], cross(["c"], ["c"], [["AtLeastKInARow", 3, "c", "r"], ["MinimumTrials", 7]]), ["atleast", "mintrials"]))
    out.append(D("atleast4-min8", [c2], cross(["c"], ["c"], [["AtLeastKInARow", 4, "c", "r"], ["MinimumTrials", 8]]), ["atleast", "mintrials"]))
    out.append(D("atleast3-uncrossed-min6", [c2, d2], cross(["c", "d"], ["c"], [["AtLeastKInARow", 3, "d", "x"], ["MinimumTrials", 6]]), ["atleast", "mintrials"]))
    out.append(D("exactlykrow3-min8", [c2], cross(["c"], ["c"], [["ExactlyKInARow", 3, "c", "r"], ["MinimumTrials", 8]]), ["exactlyrow", "mintrials"]))
    out.append(D("atmost3-min8", [c2], cross(["c"], ["c"], [["AtMostKInARow", 3, "c", "r"], ["MinimumTrials", 8]]), ["atmost", "mintrials"]))
    out.append(D("atleast2-exact-len", [c2], cross(["c"], ["c"], [["AtLeastKInARow", 2, "c", "r"]]), ["atleast", "k>block"]))
    out.append(D("exactlykrow2-c", [c2, d2], cross(["c", "d"], ["c", "d"], [["ExactlyKInARow", 2, "c", "r"]]), ["exactlyrow"]))
    out.append(D("exactlykrow1-uncrossed", [c2, d2], cross(["c", "d"], ["c"], [["ExactlyKInARow", 1, "d", "x"], ["MinimumTrials", 4]]), ["exactlyrow", "mintrials"]))
    out.append(D("exactlykrow2-uncrossed", [c2, d2], cross(["c", "d"], ["c"], [["ExactlyKInARow", 2, "d", "x"], ["MinimumTrials", 5]]), ["exactlyrow", "mintrials"]))
    out.append(D("exactlykrow3-too-long", [c2], cross(["c"], ["c"], [["ExactlyKInARow", 3, "c", "r"]]), ["exactlyrow", "k>block"]))
    out.append(D("exactlyk2-uncrossed", [c2, d2], cross(["c", "d"], ["c"], [["ExactlyK", 2, "d", "x"], ["MinimumTrials", 4]]), ["exactlyk", "mintrials"]))
    out.append(D("exactlyk1-crossed", [c2, d2], cross(["c", "d"], ["c", "d"], [["ExactlyK", 2, "c", "r"]]), ["exactlyk"]))
    out.append(D("exactlyk3-impossible", [c2], cross(["c"], ["c"], [["ExactlyK", 3, "c", "r"]]), ["exactlyk", "k>n"]))
    out.append(D("exactlyk3-uncrossed-impossible", [c2, d2], cross(["c", "d"], ["c"], [["ExactlyK", 3, "d", "x"]]), ["exactlyk", "k>n", "nosolution"]))
    out.append(D("exactlyk2-uncrossed-repeat-partial", [c2, d2], repeat(cross(["c", "d"], ["c"], [["ExactlyK", 2, "d", "x"]]), [["MinimumTrials", 3]]), ["exactlyk", "repeat", "partial", "scope-inner"]))
    for idx in (0, 1, -1, -2, 5, -5, 3, 4, -4):          # 3 / -4: the last / first trial addressed from the other end; 4: just out of range
        out.append(D(f"pin{idx}", [c2, d2], cross(["c", "d"], ["c", "d"], [["Pin", idx, "c", "r"]]), ["pin"]))
    out.append(D("pin-uncrossed", [c2, d2], cross(["c", "d"], ["c"], [["Pin", 1, "d", "x"]]), ["pin"]))
    out.append(D("exclude-rcc-false", [e3, d2], cross(["e", "d"], ["e", "d"], [["Exclude", "e", "b"]], rcc=False), ["exclude"]))
    out.append(D("exclude-rcc-true", [e3, d2], cross(["e", "d"], ["e", "d"], [["Exclude", "e", "b"]], rcc=True), ["exclude", "nosolution"]))
    out.append(D("exclude-uncrossed", [c2, fac("e", A3)], cross(["c", "e"], ["c"], [["Exclude", "e", "b"]]), ["exclude"]))
    out.append(D("sequential-crossed", [e3, d2], cross(["e", "d"], ["e"], [["Sequential", "e"]]), ["sequential"]))
    out.append(D("sequential-uncrossed", [c2, e3], cross(["c", "e"], ["c"], [["Sequential", "e"], ["MinimumTrials", 4]]), ["sequential", "mintrials"]))
    # --- level names that are not strings (the documentation allows any value; 0 / False / 0.0 are falsy)
    out.append(D("levels-int-cross", [fac("n", [0, 1, 2])], cross(["n"], ["n"]), ["nonstring-levels"]))
    out.append(D("levels-int-uncrossed", [c2, fac("n", [0, 100])], cross(["c", "n"], ["c"], [["MinimumTrials", 4]]), ["nonstring-levels", "mintrials"]))
    out.append(D("levels-int-exclude", [c2, fac("n", [0, 1, 2])], cross(["c", "n"], ["c"], [["Exclude", "n", 0]]), ["nonstring-levels", "exclude"]))
    out.append(D("levels-bool-atmost", [c2, fac("n", [False, True])], cross(["c", "n"], ["c", "n"], [["AtMostKInARow", 1, "n", False]]), ["nonstring-levels", "atmost"]))
    out.append(D("levels-int-within", [fac("n", [0, 1]), fac("m", [0, 1]), within_eq("k", "n", "m", [0, 1], [0, 1])], cross(["n", "m", "k"], ["n", "k"]), ["nonstring-levels", "within", "derived-crossed"]))
    # --- derived factors
    cong = within_eq("k", "c", "w", A2, A2)
    w2 = fac("w", A2)
    out.append(D("within-uncrossed", [c2, w2, cong], cross(["c", "w", "k"], ["c", "w"]), ["within"]))
    out.append(D("within-crossed", [c2, w2, cong], cross(["c", "w", "k"], ["c", "k"]), ["within", "derived-crossed"]))
    out.append(D("within-only-crossed-min4", [c2, w2, cong], cross(["c", "w", "k"], ["k"], [["MinimumTrials", 4]]), ["within", "derived-crossed", "mintrials"]))
    out.append(D("within-only-crossed-min5", [c2, w2, cong], cross(["c", "w", "k"], ["k"], [["MinimumTrials", 5]]), ["within", "derived-crossed", "mintrials", "partial"]))
    # a derived level accepted by many (> 8) combinations of its sources
    w4 = fac("w", ["r", "g", "b", "y"])
    out.append(D("within-3x4-atmost", [e3, w4, within_eq("k", "e", "w", A3, ["r", "g", "b", "y"])], cross(["e", "w", "k"], ["e"], [["AtMostKInARow", 1, "k", "same"]]), ["within", "atmost", "wide-table"]))
    # a within-trial derived factor with uncrossed sources crossed with a transition over it
    out.append(D("within+transition-crossed", [c2, w2, cong, transition_rep("s", "k", ["same", "diff"])], cross(["c", "w", "k", "s"], ["k", "s"]), ["within", "transition", "derived-crossed", "preamble"]))
    out.append(D("within-atmost", [c2, w2, cong], cross(["c", "w", "k"], ["c", "w"], [["AtMostKInARow", 1, "k", "same"]]), ["within", "atmost"]))
    out.append(D("within-exclude-derived", [c2, w2, cong], cross(["c", "w", "k"], ["c", "k"], [["Exclude", "k", "same"]], rcc=False), ["within", "exclude"]))
    # Exclude of a within-trial derived level whose sources are not all crossed (nothing removes it by construction in the combinatoric sampler)
    u2 = fac("u", A2)
    out.append(D("within-exclude-derived-uncrossed", [c2, w2, cong], cross(["c", "w", "k"], ["c"], [["Exclude", "k", "same"]]), ["within", "exclude"]))
    out.append(D("within-exclude-derived-two-uncrossed", [c2, w2, u2, within_eq("k", "w", "u", A2, A2)], cross(["c", "w", "u", "k"], ["c"], [["Exclude", "k", "same"]]), ["within", "exclude"]))
    out.append(D("within-exclude-source-of-crossed", [c2, w2, cong], cross(["c", "w", "k"], ["c", "k"], [["Exclude", "w", "r"]], rcc=False), ["within", "exclude", "derived-crossed"]))
    out.append(D("within-exclude-derived-multi", [c2, w2, cong], multi(["c", "w", "k"], [["c"], ["w"]], [["Exclude", "k", "same"]], mode="weight"), ["within", "exclude", "multi", "weight"]))
    tr = transition_rep("t", "c", A2)
    out.append(D("transition-exclude-within", [c2, w2, cong, tr], cross(["c", "w", "k", "t"], ["c", "t"], [["Exclude", "k", "same"]]), ["within", "exclude", "transition", "preamble"]))
    out.append(D("transition-uncrossed", [c2, tr], cross(["c", "t"], ["c"], [["MinimumTrials", 3]]), ["transition", "mintrials"]))
    out.append(D("transition-crossed", [c2, tr], cross(["c", "t"], ["c", "t"]), ["transition", "derived-crossed", "preamble"]))
    out.append(D("transition-only-crossed", [c2, tr], cross(["c", "t"], ["t"]), ["transition", "derived-crossed", "preamble"]))
    out.append(D("transition-dir-crossed", [c2, d2, transition_dir("o", "c", A2)], cross(["c", "d", "o"], ["d", "o"]), ["transition", "derived-crossed", "preamble", "directional"]))
    out.append(D("transition-dir-only-crossed", [c2, transition_dir("o", "c", A2)], cross(["c", "o"], ["o"]), ["transition", "derived-crossed", "preamble", "directional"]))
    out.append(D("transition-atmost", [c2, d2, tr], cross(["c", "d", "t"], ["c", "d"], [["AtMostKInARow", 1, "t", "rep"]]), ["transition", "atmost"]))
    out.append(D("transition-exactlyk", [c2, d2, tr], cross(["c", "d", "t"], ["c", "d"], [["ExactlyK", 1, "t", "rep"]]), ["transition", "exactlyk"]))
    out.append(D("transition-pin", [c2, d2, tr], cross(["c", "d", "t"], ["c", "d"], [["Pin", 1, "t", "rep"]]), ["transition", "pin"]))
    out.append(D("transition-exclude-first", [c2, d2, tr], cross(["c", "d", "t"], ["c", "d"], [["Exclude", "t", "rep"]]), ["transition", "exclude"]))
    out.append(D("transition-dir-exclude-first", [c2, d2, transition_dir("o", "c", A2)], cross(["c", "d", "o"], ["c", "d"], [["Exclude", "o", "up"], ["MinimumTrials", 5]]), ["transition", "exclude", "directional", "mintrials"]))
    out.append(D("transition-pin0-undefined", [c2, d2, tr], cross(["c", "d", "t"], ["c", "d"], [["Pin", 0, "t", "rep"]]), ["transition", "pin"]))
    out.append(D("window3", [c2, d2, window_last("v", "c", A2, 3)], cross(["c", "d", "v"], ["c", "d"]), ["window"]))
    out.append(D("window2-stride2", [c2, d2, window_last("v", "c", A2, 2, stride=2)], cross(["c", "d", "v"], ["c", "d"]), ["window", "stride"]))
    out.append(D("window2-start0", [c2, d2, window_last("v", "c", A2, 2, start=0)], cross(["c", "d", "v"], ["c", "d"]), ["window", "start"]))
    out.append(D("window2-start2", [c2, d2, window_last("v", "c", A2, 2, start=2)], cross(["c", "d", "v"], ["c", "d"]), ["window", "start"]))
    out.append(D("window1-stride2", [c2, d2, window_last("v", "c", A2, 1, stride=2)], cross(["c", "d", "v"], ["c", "d"]), ["window", "stride"]))
    # two complex-window factors in one block, the strided one listed first and (T - start) not a multiple of its stride
    out.append(D("window1-stride3+transition", [c2, d2, window_last("v", "c", A2, 1, stride=3), tr], cross(["c", "d", "v", "t"], ["c", "d"], [["AtMostKInARow", 1, "v", "hit"], ["AtMostKInARow", 2, "t", "rep"]]), ["window", "stride", "transition", "two-complex", "atmost"]))
    out.append(D("window2-stride2+transition", [c2, d2, window_last("v", "c", A2, 2, stride=2), tr], cross(["c", "d", "v", "t"], ["c", "d"], [["AtMostKInARow", 1, "v", "hit"], ["AtMostKInARow", 2, "t", "rep"]]), ["window", "stride", "transition", "two-complex", "atmost"]))
    out.append(D("transition+window2-stride2", [c2, d2, tr, window_last("v", "d", ["x", "y"], 2, stride=2, first="x")], cross(["c", "d", "t", "v"], ["c", "d"], [["AtMostKInARow", 1, "v", "hit"], ["AtMostKInARow", 2, "t", "rep"]]), ["window", "stride", "transition", "two-complex", "atmost"]))
    # strided windows with a non-default start, decided by the solver (a lax constraint makes the factor part of the formula)
    lax = [["AtMostKInARow", 9, "v", "hit"], ["MinimumTrials", 6]]
    out.append(D("window1-stride2-start1-reified", [c2, window_last("v", "c", A2, 1, stride=2, start=1)], cross(["c", "v"], ["c"], lax), ["window", "stride", "start", "atmost", "mintrials"]))
    out.append(D("window2-stride2-start3-reified", [c2, window_last("v", "c", A2, 2, stride=2, start=3)], cross(["c", "v"], ["c"], lax), ["window", "stride", "start", "atmost", "mintrials"]))
    out.append(D("window2-stride3-start0-reified", [c2, window_last("v", "c", A2, 2, stride=3, start=0)], cross(["c", "v"], ["c"], lax), ["window", "stride", "start", "atmost", "mintrials"]))
    out.append(D("window3-stride2-reified", [c2, window_last("v", "c", A2, 3, stride=2)], cross(["c", "v"], ["c"], lax), ["window", "stride", "atmost", "mintrials"]))
    # crossed plain windows with an explicit start (earlier / later than the default)
    out.append(D("window2-start0-crossed", [c2, window_last("v", "c", A2, 2, start=0)], cross(["c", "v"], ["c", "v"]), ["window", "start", "derived-crossed", "preamble"]))
    out.append(D("window2-start3-crossed", [c2, window_last("v", "c", A2, 2, start=3)], cross(["c", "v"], ["c", "v"]), ["window", "start", "derived-crossed", "preamble"]))
    out.append(D("window1-start2-crossed", [c2, window_last("v", "c", A2, 1, start=2)], cross(["c", "v"], ["v"]), ["window", "start", "derived-crossed", "preamble"]))
    out.append(D("window2-crossed", [c2, window_last("v", "c", A2, 2)], cross(["c", "v"], ["c", "v"]), ["window", "derived-crossed", "preamble"]))
    out.append(D("window2-stride2-atmost", [c2, d2, window_last("v", "c", A2, 2, stride=2)],
                 cross(["c", "d", "v"], ["c", "d"], [["AtMostKInARow", 1, "v", "hit"]]), ["window", "stride", "atmost"]))
    # derived of derived
    out.append(D("within-of-transition", [c2, d2, tr, fac("u", ["a", "b"], derive("within", ["t", "d"], fn=lambda l, x, y: None not in (x[0], y[0]) and ((x[0] == "rep" and y[0] == "x") == (l == "a")),
                                                                                levels=["a", "b"], dep_levels=[["rep", "sw"], ["x", "y"]]))],
                 cross(["c", "d", "t", "u"], ["c", "d"]), ["transition", "within", "nested-derived"]))
    # --- Repeat
    for T in (4, 5, 6):
        out.append(D(f"repeat-2-min{T}", [c2], repeat(cross(["c"], ["c"]), [["MinimumTrials", T]]), ["repeat"] + (["partial"] if T % 2 else [])))
    out.append(D("repeat-noop", [c2, d2], repeat(cross(["c", "d"], ["c", "d"]), []), ["repeat"]))
    for T in (4, 5, 6, 7):
        out.append(D(f"repeat-atmost-inner-min{T}", [c2, d2], repeat(cross(["c", "d"], ["c"], [["AtMostKInARow", 1, "d", "x"]]), [["MinimumTrials", T]]),
                     ["repeat", "scope-inner", "atmost"] + (["partial"] if T % 2 else [])))
        out.append(D(f"repeat-atmost-outer-min{T}", [c2, d2], repeat(cross(["c", "d"], ["c"]), [["MinimumTrials", T], ["AtMostKInARow", 1, "d", "x"]]),
                     ["repeat", "scope-outer", "atmost"] + (["partial"] if T % 2 else [])))
    out.append(D("repeat-atmost-crossed-inner", [c2, d2], repeat(cross(["c", "d"], ["c", "d"], [["AtMostKInARow", 1, "c", "r"]]), [["MinimumTrials", 8]]), ["repeat", "scope-inner", "atmost"]))
    out.append(D("repeat-atmost-crossed-outer", [c2, d2], repeat(cross(["c", "d"], ["c", "d"]), [["MinimumTrials", 8], ["AtMostKInARow", 1, "c", "r"]]), ["repeat", "scope-outer", "atmost"]))
    out.append(D("repeat-pin-inner", [c2, d2], repeat(cross(["c", "d"], ["c"], [["Pin", 0, "d", "x"]]), [["MinimumTrials", 6]]), ["repeat", "scope-inner", "pin"]))
    out.append(D("repeat-pin-neg-inner", [c2, d2], repeat(cross(["c", "d"], ["c"], [["Pin", -1, "d", "x"]]), [["MinimumTrials", 6]]), ["repeat", "scope-inner", "pin"]))
    out.append(D("repeat-pin-outer", [c2, d2], repeat(cross(["c", "d"], ["c"]), [["MinimumTrials", 6], ["Pin", -1, "d", "x"]]), ["repeat", "scope-outer", "pin"]))
    out.append(D("repeat-pin-neg-inner-partial", [c2, d2], repeat(cross(["c", "d"], ["c"], [["Pin", -1, "d", "x"]]), [["MinimumTrials", 5]]), ["repeat", "scope-inner", "pin", "partial"]))
    out.append(D("repeat-exactlyk-inner", [c2, d2], repeat(cross(["c", "d"], ["c"], [["ExactlyK", 1, "d", "x"]]), [["MinimumTrials", 6]]), ["repeat", "scope-inner", "exactlyk"]))
    out.append(D("repeat-exactlyk-outer", [c2, d2], repeat(cross(["c", "d"], ["c"]), [["MinimumTrials", 6], ["ExactlyK", 1, "d", "x"]]), ["repeat", "scope-outer", "exactlyk"]))
    out.append(D("repeat-exactlyk-inner-partial", [c2, d2], repeat(cross(["c", "d"], ["c"], [["ExactlyK", 1, "d", "x"]]), [["MinimumTrials", 5]]), ["repeat", "scope-inner", "exactlyk", "partial"]))
    out.append(D("repeat-atleast-inner", [c2, d2], repeat(cross(["c", "d"], ["c", "d"], [["AtLeastKInARow", 2, "c", "r"]]), [["MinimumTrials", 8]]), ["repeat", "scope-inner", "atleast"]))
    out.append(D("repeat-exactlyrow-inner", [c2, d2], repeat(cross(["c", "d"], ["c", "d"], [["ExactlyKInARow", 2, "c", "r"]]), [["MinimumTrials", 8]]), ["repeat", "scope-inner", "exactlyrow"]))
    out.append(D("repeat-transition-crossed", [c2, tr], repeat(cross(["c", "t"], ["c", "t"]), [["MinimumTrials", 9]]), ["repeat", "transition", "preamble"]))
    out.append(D("repeat-transition-crossed-partial", [c2, tr], repeat(cross(["c", "t"], ["c", "t"]), [["MinimumTrials", 7]]), ["repeat", "transition", "preamble", "partial"]))
    out.append(D("repeat-transition-atmost-inner", [c2, d2, tr], repeat(cross(["c", "d", "t"], ["c", "d"], [["AtMostKInARow", 1, "t", "rep"]]), [["MinimumTrials", 8]]),
                 ["repeat", "transition", "scope-inner", "atmost", "complex-windowed"]))
    out.append(D("repeat-transition-crossed-atmost-inner", [c2, tr], repeat(cross(["c", "t"], ["c", "t"], [["AtMostKInARow", 1, "t", "rep"]]), [["MinimumTrials", 9]]),
                 ["repeat", "transition", "preamble", "scope-inner", "atmost", "complex-windowed"]))
    out.append(D("repeat-sequential", [e3, d2], repeat(cross(["e", "d"], ["e"], [["Sequential", "e"]]), [["MinimumTrials", 6]]), ["repeat", "sequential"]))
    # --- MultiCrossBlock / Merge
    f3 = fac("f", ["p", "q", "s"])
    for mode in ("weight", "repeat"):
        out.append(D(f"multi-2v3-{mode}", [c2, f3], multi(["c", "f"], [["c"], ["f"]], mode=mode), ["multi", mode]))
        out.append(D(f"multi-2v2x2-{mode}", [c2, d2, fac("g", ["u", "v"])], multi(["c", "d", "g"], [["c"], ["d", "g"]], mode=mode), ["multi", mode]))
        out.append(D(f"merge-2v3-{mode}", [c2, f3], merge([cross(["c"], ["c"]), cross(["f"], ["f"])], mode=mode), ["merge", mode]))
        out.append(D(f"merge-shared-design-{mode}", [c2, d2, f3], merge([cross(["c", "d"], ["c"]), cross(["f", "d"], ["f"])], mode=mode), ["merge", mode]))
    out.append(D("multi-equal-2v2", [c2, d2], multi(["c", "d"], [["c"], ["d"]]), ["multi", "equal"]))
    out.append(D("multi-atmost", [c2, f3], multi(["c", "f"], [["c"], ["f"]], [["AtMostKInARow", 1, "c", "r"]], mode="weight"), ["multi", "weight", "atmost"]))
    out.append(D("merge-inner-atmost", [c2, f3, d2], merge([cross(["c", "d"], ["c"], [["AtMostKInARow", 1, "d", "x"]]), cross(["f"], ["f"])]), ["merge", "repeat", "scope-inner", "atmost"]))
    out.append(D("merge-outer-atmost", [c2, f3, d2], merge([cross(["c", "d"], ["c"]), cross(["f"], ["f"])], [["AtMostKInARow", 1, "d", "x"]]), ["merge", "repeat", "scope-outer", "atmost"]))
    out.append(D("merge-single", [c2, d2], merge([cross(["c", "d"], ["c", "d"])]), ["merge"]))
    out.append(D("multi-transition-post", [c2, d2, tr], multi(["c", "d", "t"], [["c", "t"], ["d"]], mode="weight", alignment="post preamble"), ["multi", "weight", "preamble", "post"]))
    out.append(D("multi-transition-parallel", [c2, d2, tr], multi(["c", "d", "t"], [["c", "t"], ["d"]], mode="weight", alignment="parallel start"), ["multi", "weight", "preamble", "parallel"]))
    out.append(D("multi-transition-parallel-repeat", [c2, d2, tr], multi(["c", "d", "t"], [["c", "t"], ["d"]], mode="repeat", alignment="parallel start"), ["multi", "repeat", "preamble", "parallel"]))
    # alignment modes with the preamble-bearing crossing NOT first, and in repeat mode / through Merge
    for al, tag in (("post preamble", "post"), ("parallel start", "parallel"), ("equal preamble", "equalpre")):
        out.append(D(f"multi-transition-second-{tag}", [c2, d2, tr], multi(["c", "d", "t"], [["d"], ["c", "t"]], mode="weight", alignment=al), ["multi", "weight", "preamble", tag]))
    out.append(D("multi-transition-post-repeat", [c2, d2, tr], multi(["c", "d", "t"], [["c", "t"], ["d"]], mode="repeat", alignment="post preamble"), ["multi", "repeat", "preamble", "post"]))
    for mode in ("weight", "repeat"):       # the largest crossing is NOT the one with the latest-starting derived factor
        out.append(D(f"multi-post-big-first-{mode}", [c2, d2, tr], multi(["c", "d", "t"], [["c", "d"], ["t"]], mode=mode, alignment="post preamble"), ["multi", mode, "preamble", "post"]))
    out.append(D("merge-transition-post", [c2, d2, tr], merge([cross(["c", "t"], ["c", "t"]), cross(["d"], ["d"])], mode="weight", alignment="post preamble"), ["merge", "weight", "preamble", "post"]))
    # --- Nest
    out.append(D("nest-2in2", [c2, d2], nest(cross(["c"], ["c"]), cross(["d"], ["d"])), ["nest"]))
    out.append(D("nest-2in3", [c2, f3], nest(cross(["c"], ["c"]), cross(["f"], ["f"])), ["nest"]))
    out.append(D("nest-3in2", [f3, d2], nest(cross(["f"], ["f"]), cross(["d"], ["d"])), ["nest"]))
    out.append(D("nest-inner-atmost", [c2, d2, fac("g", ["u", "v"])], nest(cross(["c"], ["c"]), cross(["d", "g"], ["d"], [["AtMostKInARow", 1, "g", "u"]])), ["nest", "scope-inner", "atmost"]))
    out.append(D("nest-own-atmost", [c2, d2, fac("g", ["u", "v"])], nest(cross(["c"], ["c"]), cross(["d", "g"], ["d"]), [["AtMostKInARow", 1, "g", "u"]]), ["nest", "scope-outer", "atmost"]))
    # a within-trial derived factor crossed in the OUTER block whose other source is not crossed (sustained label, unsustained source)
    out.append(D("nest-outer-derived-crossed", [c2, fac("w", A2), within_eq("k", "c", "w", A2, A2), d2],
                 nest(cross(["c", "w", "k"], ["k"]), cross(["d"], ["d"])), ["nest", "within", "derived-crossed"]))
    # MinimumTrials on the Nest itself that is not a multiple of the inner run length (rounded up), alone and next to constraints whose validation asks for the trial count
    out.append(D("nest-own-min5", [c2, d2], nest(cross(["c"], ["c"]), cross(["d"], ["d"]), [["MinimumTrials", 5]]), ["nest", "mintrials"]))
    out.append(D("nest-own-min5-pin", [c2, d2], nest(cross(["c"], ["c"]), cross(["d"], ["d"]), [["MinimumTrials", 5], ["Pin", 0, "d", "x"]]), ["nest", "mintrials", "pin", "scope-outer"]))
    out.append(D("nest-own-min7-atleast", [c2, d2], nest(cross(["c"], ["c"]), cross(["d"], ["d"]), [["MinimumTrials", 7], ["AtLeastKInARow", 1, "d", "x"]]), ["nest", "mintrials", "atleast", "scope-outer"]))
    out.append(D("nest-outer-uncrossed", [c2, d2, fac("g", ["u", "v"])], nest(cross(["c", "g"], ["c"]), cross(["d"], ["d"])), ["nest"]))
    # combinators over blocks that contain factors the library handles internally: an implied derived factor (neither crossed nor constrained),
    # a weighted factor outside the crossing (replaced by hidden factors), and a constraint on such a weighted factor
    wdu = fac("d", [["x", 2], ["y", 1]])
    gk = within_eq("k", "d", "g", ["x", "y"], ["x", "y"])
    gx = fac("g", ["x", "y"])
    out.append(D("nest-inner-implied-derived", [c2, d2, gx, gk], nest(cross(["c"], ["c"]), cross(["d", "g", "k"], ["d"])), ["nest", "within", "implied"]))
    out.append(D("nest-outer-implied-derived", [c2, d2, gx, gk], nest(cross(["d", "g", "k"], ["d"]), cross(["c"], ["c"])), ["nest", "within", "implied"]))
    out.append(D("nest-inner-weighted-uncrossed", [c2, gx, wdu], nest(cross(["c"], ["c"]), cross(["g", "d"], ["g"])), ["nest", "weight", "weight-uncrossed"]))
    out.append(D("nest-outer-weighted-uncrossed", [c2, gx, wdu], nest(cross(["c", "d"], ["c"]), cross(["g"], ["g"])), ["nest", "weight", "weight-uncrossed"]))
    out.append(D("w-uncrossed-atmost", [c2, wdu], cross(["c", "d"], ["c"], [["AtMostKInARow", 1, "d", "x"], ["MinimumTrials", 4]]), ["weight", "weight-uncrossed", "atmost", "mintrials"]))
    out.append(D("merge-weighted-uncrossed-atmost", [c2, gx, wdu], merge([cross(["g"], ["g"]), cross(["c", "d"], ["c"], [["AtMostKInARow", 1, "d", "x"]])]), ["merge", "weight", "weight-uncrossed", "atmost", "scope-inner"]))
    out.append(D("nest-weighted-uncrossed-atmost", [c2, gx, wdu], nest(cross(["c"], ["c"]), cross(["g", "d"], ["g"], [["AtMostKInARow", 1, "d", "x"]])), ["nest", "weight", "weight-uncrossed", "atmost", "scope-inner"]))
    # a Pin (window-scoped, desugared to the hidden factor) on a weighted factor outside the crossing, given to a block that is then combined
    out.append(D("repeat-weighted-uncrossed-pin0", [c2, wdu], repeat(cross(["c", "d"], ["c"], [["Pin", 0, "d", "x"]]), [["MinimumTrials", 4]]), ["repeat", "weight", "weight-uncrossed", "pin", "scope-inner"]))
    out.append(D("nest-weighted-uncrossed-pin-1", [c2, gx, wdu], nest(cross(["c"], ["c"]), cross(["g", "d"], ["g"], [["Pin", -1, "d", "x"]])), ["nest", "weight", "weight-uncrossed", "pin", "scope-inner"]))
    out.append(D("merge-weighted-uncrossed-pin0", [e3, c2, wdu], merge([cross(["e"], ["e"]), cross(["c", "d"], ["c"], [["Pin", 0, "d", "x"]])]), ["merge", "weight", "weight-uncrossed", "pin", "scope-inner"]))
    out.append(D("repeat-weighted-uncrossed-atmost", [c2, wdu], repeat(cross(["c", "d"], ["c"], [["AtMostKInARow", 1, "d", "x"]]), [["MinimumTrials", 4]]), ["repeat", "weight", "weight-uncrossed", "atmost", "scope-inner"]))
    out.append(D("nest-outer-sequential", [c2, d2], nest(cross(["c"], ["c"], [["Sequential", "c"]]), cross(["d"], ["d"])), ["nest", "sequential", "outer-constraint"]))
    out.append(D("nest-inner-sequential", [c2, d2], nest(cross(["c"], ["c"]), cross(["d"], ["d"], [["Sequential", "d"]])), ["nest", "sequential"]))
    out.append(D("nest-outer-atmost", [f3, d2], nest(cross(["f"], ["f"], [["AtMostKInARow", 2, "f", "p"]]), cross(["d"], ["d"])), ["nest", "outer-constraint", "atmost"]))
    out.append(D("nest-outer-pin", [c2, d2], nest(cross(["c"], ["c"], [["Pin", 0, "c", "r"]]), cross(["d"], ["d"])), ["nest", "outer-constraint", "pin"]))
    out.append(D("nest-outer-exactlyk", [c2, d2, fac("g", ["u", "v"])], nest(cross(["c", "g"], ["c"], [["ExactlyK", 1, "g", "u"]]), cross(["d"], ["d"])), ["nest", "outer-constraint", "exactlyk"]))
    out.append(D("nest-nest", [c2, d2, fac("g", ["u", "v"])], nest(nest(cross(["c"], ["c"]), cross(["d"], ["d"])), cross(["g"], ["g"])), ["nest", "nest-nest"]))
    out.append(D("nest-nest-right", [c2, d2, fac("g", ["u", "v"])], nest(cross(["c"], ["c"]), nest(cross(["d"], ["d"]), cross(["g"], ["g"]))), ["nest", "nest-nest"]))
    out.append(D("nest-inner-mintrials4", [c2, d2], nest(cross(["c"], ["c"]), cross(["d"], ["d"], [["MinimumTrials", 4]])), ["nest", "mintrials"]))
    out.append(D("nest-inner-mintrials6-of3", [c2, f3], nest(cross(["c"], ["c"]), cross(["f"], ["f"], [["MinimumTrials", 6]])), ["nest", "mintrials"]))
    out.append(D("nest-inner-uncrossed-mintrials", [c2, d2, fac("g", ["u", "v"])], nest(cross(["c"], ["c"]), cross(["d", "g"], ["d"], [["MinimumTrials", 4]])), ["nest", "mintrials"]))
    # --- weighted crossings with trailing partial chunks (weight x partial tail longer than the weight)
    fw = fac("f", [["a", 2], ["b", 1]])
    lw = fac("l", [["a", 1], ["b", 2], ["c", 1]])
    out.append(D("w-repeat-partial5", [fw], repeat(cross(["f"], ["f"]), [["MinimumTrials", 5]]), ["weight", "repeat", "partial"]))
    out.append(D("w-cross-mintrials5", [fw], cross(["f"], ["f"], [["MinimumTrials", 5]]), ["weight", "mintrials", "partial"]))
    out.append(D("w-repeat-partial7-of4", [lw], repeat(cross(["l"], ["l"]), [["MinimumTrials", 7]]), ["weight", "repeat", "partial"]))
    out.append(D("w-cross-mintrials7-of4", [lw], cross(["l"], ["l"], [["MinimumTrials", 7]]), ["weight", "mintrials", "partial"]))
    out.append(D("w-cross-mintrials7-pins", [lw], cross(["l"], ["l"], [["MinimumTrials", 7], ["Pin", 0, "l", "b"], ["Pin", 1, "l", "b"], ["Pin", 2, "l", "b"], ["Pin", 3, "l", "b"]]), ["weight", "mintrials", "partial", "pin"]))
    out.append(D("w-merge-2v-weighted3", [c2, fw], merge([cross(["c"], ["c"]), cross(["f"], ["f"])], mode="weight"), ["weight", "merge"]))
    out.append(D("w-merge-2v-weighted3-repeat", [c2, lw], merge([cross(["c"], ["c"]), cross(["l"], ["l"])], [["MinimumTrials", 7]], mode="repeat"), ["weight", "merge", "partial"]))
    out.append(D("w2-derived-crossed", [c2, fac("w", A2), {"name": "k", "levels": [["same", 2], ["diff", 1]], "derive": within_eq("k", "c", "w", A2, A2)["derive"]}],
                 cross(["c", "w", "k"], ["k"]), ["weight", "within", "derived-crossed"]))
    out.append(D("w2-derived-crossed-repeat5", [c2, fac("w", A2), {"name": "k", "levels": [["same", 2], ["diff", 1]], "derive": within_eq("k", "c", "w", A2, A2)["derive"]}],
                 repeat(cross(["c", "w", "k"], ["k"]), [["MinimumTrials", 5]]), ["weight", "within", "derived-crossed", "repeat", "partial"]))
    # a weighted factor outside the crossing whose copies feed a crossed derived factor
    cw = fac("c", [["r", 2], ["g", 1]])
    out.append(D("w-uncrossed-feeds-crossed-derived", [cw, fac("w", A2), within_eq("k", "c", "w", A2, A2)], cross(["c", "w", "k"], ["k"]), ["weight", "weight-uncrossed", "within", "derived-crossed"]))
    out.append(D("w-uncrossed-feeds-crossed-derived-2", [cw, fac("w", A2), within_eq("k", "c", "w", A2, A2)], cross(["c", "w", "k"], ["w", "k"]), ["weight", "weight-uncrossed", "within", "derived-crossed"]))
    # --- wide windows in the crossing (two preamble trials) with several basic factors
    out.append(D("window3-crossed-2basic", [c2, d2, window_last("v", "c", A2, 3)], cross(["c", "d", "v"], ["c", "v"]), ["window", "derived-crossed", "preamble", "preamble2"]))
    out.append(D("window3-crossed-3level-first", [e3, c2, window_last("v", "c", A2, 3)], cross(["e", "c", "v"], ["v"]), ["window", "derived-crossed", "preamble", "preamble2"]))
    # --- LatinSquare
    out.append(D("latin-2x2", [c2, d2], cross(["c", "d"], ["c", "d"], [["LatinSquare", ["c", "d"]]]), ["latin"]))
    out.append(D("latin-3x3", [e3, f3], cross(["e", "f"], ["e", "f"], [["LatinSquare", ["e", "f"]]]), ["latin"]))
    out.append(D("latin-3x2", [e3, d2], cross(["e", "d"], ["e", "d"], [["LatinSquare", ["e", "d"]]]), ["latin"]))
    out.append(D("latin-single", [e3, d2], cross(["e", "d"], ["e"], [["LatinSquare", ["e"]]]), ["latin"]))
    # --- shapes behind defects D28-D31 (DESIGN 11.8)
    w2_, cong_ = fac("w", A2), within_eq("k", "c", "w", A2, A2)
    over_k = fac("m", ["yes", "no"], derive("within", ["k"], fn=lambda l, x: (x[0] == "same") == (l == "yes"), levels=["yes", "no"], dep_levels=[["same", "diff"]]))
    # an implied derived factor listed BEFORE the implied factor it depends on
    out.append(D("implied-chain-reversed", [c2, w2_, over_k, cong_], cross(["c", "w", "m", "k"], ["c", "w"]), ["within", "derived-on-derived", "implied-order"]))
    out.append(D("implied-chain-reversed-atmost", [c2, w2_, over_k, cong_], cross(["c", "w", "m", "k"], ["c", "w"], [["AtMostKInARow", 1, "k", "same"]]),
                 ["within", "derived-on-derived", "implied-order", "atmost"]))
    # two crossed within-trial factors over the same uncrossed sources (a source combination can be rejected by both)
    c_is_r = fac("m", ["cr", "cn"], derive("within", ["c", "w"], fn=lambda l, x, y: (x[0] == "r") == (l == "cr"), levels=["cr", "cn"], dep_levels=[A2, A2]))
    out.append(D("two-within-crossed-same-sources", [c2, w2_, cong_, c_is_r], cross(["c", "w", "k", "m"], ["k", "m"]), ["within", "derived-crossed", "two-derived-crossed"]))
    # a within-trial factor crossed with a transition over a basic factor (both in the crossing: preamble trials need every derived factor)
    out.append(D("within-x-transition-crossed", [c2, w2_, cong_, transition_rep("s", "c", A2)], cross(["c", "w", "k", "s"], ["k", "s"]),
                 ["within", "transition", "derived-crossed", "preamble"]))
    out.append(D("within-x-window3-crossed", [c2, w2_, cong_, window_last("v", "c", A2, 3)], cross(["c", "w", "k", "v"], ["k", "v"]),
                 ["within", "window", "derived-crossed", "preamble", "preamble2"]))
    # a width-1 window that starts before its source (a transition) has a level: the predicate sees None there
    early = lambda name: fac(name, ["hit", "miss"], derive("window", ["s"], fn=lambda l, x: (x[0] == "rep") == (l == "hit"), width=1, stride=1, start=0,
                                                          levels=["hit", "miss"], dep_levels=[["rep", "sw"]]))
    out.append(D("window1-start0-over-transition-crossed", [c2, transition_rep("s", "c", A2), early("v")], cross(["c", "s", "v"], ["c", "v"]),
                 ["window", "transition", "derived-on-derived", "derived-crossed", "early-start"]))
    out.append(D("window1-start0-over-transition-crossed-3", [e3, transition_rep("s", "e", A3), early("v")], cross(["e", "s", "v"], ["e", "v"]),
                 ["window", "transition", "derived-on-derived", "derived-crossed", "early-start"]))
    out.append(D("window1-start0-over-transition-uncrossed", [c2, transition_rep("s", "c", A2), early("v")], cross(["c", "s", "v"], ["c"], [["AtMostKInARow", 2, "v", "miss"]]),
                 ["window", "transition", "derived-on-derived", "early-start", "atmost"]))
    out.append(D("window1-start0-over-transition-implied", [c2, transition_rep("s", "c", A2), early("v")], cross(["c", "s", "v"], ["c"]),
                 ["window", "transition", "derived-on-derived", "early-start", "implied"]))
    # an Exclude on a within-trial derived level whose factor is in ONE crossing while ANOTHER crossing holds its sources (each crossing is reduced on its own)
    for md in ("equal", "weight"):
        out.append(D(f"multi-exclude-derived-other-crossing-{md}", [c2, w2_, cong_, d2],
                     multi(["c", "w", "k", "d"], [["c", "w"], ["k", "d"]], [["Exclude", "k", "same"]], rcc=False, mode=md), ["multi", "within", "exclude", "derived-crossed"]))
    # preamble trials drawn from the basic levels that are left after an Exclude of a basic level of an uncrossed factor
    out.append(D("transition-crossed-exclude-uncrossed-basic", [c2, e3, transition_rep("s", "e", A3)], cross(["c", "e", "s"], ["c", "s"], [["Exclude", "e", "b"]]),
                 ["transition", "derived-crossed", "preamble", "exclude"]))
    # a crossed within-trial factor whose levels have DIFFERENT numbers of completions by its uncrossed source, with a partial last run (leftover)
    is_r = fac("k", ["yes", "no"], derive("within", ["e"], fn=lambda l, x: (x[0] == "r") == (l == "yes"), levels=["yes", "no"], dep_levels=[A3]))
    out.append(D("within-only-crossed-unequal-min3", [e3, is_r], cross(["e", "k"], ["k"], [["MinimumTrials", 3]]), ["within", "derived-crossed", "mintrials", "partial", "unequal-completions"]))
    out.append(D("within-only-crossed-unequal", [e3, is_r], cross(["e", "k"], ["k"]), ["within", "derived-crossed", "unequal-completions"]))
    # Merge of a block WITHOUT preamble that carries its own run-length constraint with a block that has a preamble trial (alignment modes):
    # the first block's constraint covers its whole run, preamble trial and last trial included
    for al, tag in (("post preamble", "post"), ("parallel start", "parallel")):
        out.append(D(f"merge-own-atmost-{tag}", [d2, fac("g", ["p", "q"]), c2, transition_rep("s", "c", A2)],
                     merge([cross(["d", "g"], ["d", "g"], [["AtMostKInARow", 1, "d", "x"]]), cross(["c", "s"], ["c", "s"])], mode="weight", alignment=al),
                     ["merge", "atmost", "preamble", tag]))
    # two Excludes of within-trial derived levels that only TOGETHER make a crossing combination impossible (c = r: w = r gives A, w = g gives B)
    rel3 = fac("k", ["A", "B", "C"], derive("within", ["c", "w"], fn=lambda l, x, y: {"A": x[0] == y[0], "B": x[0] == "r" and y[0] == "g", "C": x[0] == "g" and y[0] == "r"}[l],
                                            levels=["A", "B", "C"], dep_levels=[A2, A2]))
    out.append(D("within-exclude-jointly-impossible", [c2, w2_, rel3], cross(["c", "w", "k"], ["c"], [["Exclude", "k", "A"], ["Exclude", "k", "B"]], rcc=False),
                 ["within", "exclude", "joint-exclude"]))
    # a WEIGHTED derived level over a weighted factor outside the crossing (the rebuilt derived level must keep its weight)
    wd_ = fac("d", [["x", 1], ["y", 2]])
    kw_ = fac("k", [["S", 2], ["B", 1]], derive("within", ["d"], fn=lambda l, x: (x[0] == "y") == (l == "S"), levels=["S", "B"], dep_levels=[["x", "y"]]))
    out.append(D("weighted-derived-over-weighted-uncrossed", [wd_, kw_], cross(["d", "k"], ["k"]), ["weight", "weight-uncrossed", "within", "derived-crossed", "weighted-derived"]))
    out.append(D("weighted-derived-over-unweighted", [d2, kw_], cross(["d", "k"], ["k"]), ["weight", "within", "derived-crossed", "weighted-derived"]))
    # a within-trial factor over a 3-level source and a transition over it, both crossed, repeated with a partial last run
    big_ = fac("k", ["yes", "no"], derive("within", ["e"], fn=lambda l, x: (x[0] == "b") == (l == "yes"), levels=["yes", "no"], dep_levels=[A3]))
    out.append(D("repeat-within+transition-crossed-min7", [e3, big_, transition_rep("s", "k", ["yes", "no"])],
                 repeat(cross(["e", "k", "s"], ["k", "s"]), [["MinimumTrials", 7]]), ["repeat", "within", "transition", "derived-crossed", "preamble", "mintrials", "partial"]))
    # Sequential given to a block whose length is not a multiple of the factor's number of levels, the block then repeated: the order starts over per repetition
    sq3 = fac("q", ["p", "q", "r"])
    out.append(D("nest-inner-sequential-3in2", [c2, d2, sq3], nest(cross(["c"], ["c"]), cross(["d", "q"], ["d"], [["Sequential", "q"]])), ["nest", "sequential", "scope-inner"]))
    out.append(D("repeat-inner-sequential-3in2", [d2, sq3], repeat(cross(["d", "q"], ["d"], [["Sequential", "q"]]), [["MinimumTrials", 4]]), ["repeat", "sequential", "scope-inner", "mintrials"]))
    out.append(D("repeat-own-sequential-3in2", [d2, sq3], repeat(cross(["d", "q"], ["d"]), [["MinimumTrials", 4], ["Sequential", "q"]]), ["repeat", "sequential", "scope-outer", "mintrials"]))
    # a count constraint on a level whose factor applies to NO trial of the block (window wider than the block): the count is 0
    out.append(D("exactlyk2-window3-never-applies", [c2, window_last("v", "c", A2, 3)], cross(["c", "v"], ["c"], [["ExactlyK", 2, "v", "miss"]]), ["window", "exactlyk", "never-applies"]))
    out.append(D("exactlyk1-window3-never-applies-repeat", [c2, window_last("v", "c", A2, 3)],
                 repeat(cross(["c", "v"], ["c"], [["ExactlyK", 1, "v", "hit"]]), [["MinimumTrials", 3]]), ["window", "exactlyk", "never-applies", "repeat", "mintrials"]))
    # --- continuous factors next to the discrete design (C08, C20 only: SC.design_space(continuous=True))
    wdu_ = fac("d", [["x", 2], ["y", 1]])
    for nz in (1, 2):
        zs = [f"z{i}" for i in range(nz)]
        out.append(D(f"continuous{nz}-plain", [c2, d2], dict(cross(["c", "d"], ["c"]), continuous=zs), ["continuous"]))
        out.append(D(f"continuous{nz}-w-uncrossed", [c2, wdu_], dict(cross(["c", "d"], ["c"]), continuous=zs), ["continuous", "weight", "weight-uncrossed"]))
        out.append(D(f"continuous{nz}-repeat-w-uncrossed", [c2, wdu_], repeat(dict(cross(["c", "d"], ["c"]), continuous=zs), [["MinimumTrials", 4]]),
                     ["continuous", "weight", "weight-uncrossed", "repeat"]))
    out.append(D("continuous2-two-w-uncrossed", [c2, wdu_, fac("g", [["p", 1], ["q", 3]])], dict(cross(["c", "d", "g"], ["c"]), continuous=["z0", "z1"]),
                 ["continuous", "weight", "weight-uncrossed"]))
    return out


def by_tag(designs, *tags, exclude=()):
    return [d for d in designs if all(t in d["tags"] for t in tags) and not any(t in d["tags"] for t in exclude)]


# ------------------------------------------------------------------ seeded random designs from the same grammar
def random_designs(seed, n, combinators=True):
    rng = random.Random(seed)
    out = []
    for i in range(n):
        nb = rng.choice([1, 2, 2, 3])
        names = ["a", "b", "c"][:nb]
        lvsets = [rng.choice([A2, A2, A3]) for _ in names]
        factors = []
        for nm, ls in zip(names, lvsets):
            if rng.random() < 0.2:
                factors.append(fac(nm, [[l, rng.choice([1, 2])] for l in ls]))
            else:
                factors.append(fac(nm, ls))
        design = list(names)
        kind = rng.choice(["none", "none", "within", "transition", "window"])
        if kind == "within" and nb >= 2:
            factors.append(within_eq("k", names[0], names[1], lvsets[0], lvsets[1]))
            design.append("k")
        elif kind == "transition":
            factors.append(transition_rep("t", names[0], lvsets[0]))
            design.append("t")
        elif kind == "window":
            factors.append(window_last("v", names[0], lvsets[0], rng.choice([2, 3]), stride=rng.choice([1, 1, 2])))
            design.append("v")
        ncross = rng.choice([1, 1, 2]) if nb >= 2 else 1
        crossing = names[:ncross]
        if len(design) > nb and design[-1] in ("k", "t") and rng.random() < 0.25:
            crossing = crossing[:1] + [design[-1]]
        cons = []
        for _ in range(rng.choice([0, 1, 1, 2])):
            f = rng.choice(design)
            F = next(x for x in factors if x["name"] == f)
            l = rng.choice([x[0] for x in F["levels"]])
            ck = rng.choice(["AtMostKInARow", "AtLeastKInARow", "ExactlyKInARow", "ExactlyK", "Pin", "AtMostKInARow"])
            if ck == "Pin":
                cons.append(["Pin", rng.choice([0, 1, -1, 2, -2]), f, l])
            else:
                cons.append([ck, rng.choice([1, 1, 2, 3]), f, l])
        blk = cross(design, crossing, cons)
        tags = ["random"]
        if combinators and rng.random() < 0.4:
            base = 1
            for f in crossing:
                F = next(x for x in factors if x["name"] == f)
                base *= sum(w for _, w in F["levels"])
            if base <= 4:
                blk = repeat(blk, [["MinimumTrials", base + rng.choice([1, base, base + 1])]])
                tags.append("repeat")
        elif rng.random() < 0.3:
            blk["constraints"].append(["MinimumTrials", rng.choice([3, 4, 5, 6])])
            tags.append("mintrials")
        out.append(D(f"rnd-{seed}-{i}", factors, blk, tags))
    return out
