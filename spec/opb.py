"""Independent evaluator for the OPB subset the library writes:  (+1|-1) vN ... (>=|<=|=) c ;"""
import re

TERM = re.compile(r"([+-]\d+)\s+v(\d+)")


def parse(text):
    cons = []
    for raw in text.replace("\n", " ").split(";"):
        line = raw.strip()
        if not line:
            continue
        m = re.search(r"(>=|<=|=)\s*(-?\d+)\s*$", line)
        if not m:
            raise ValueError(f"cannot parse OPB constraint: {line!r}")
        terms = [(int(c), int(v)) for c, v in TERM.findall(line[:m.start()])]
        rest = TERM.sub("", line[:m.start()]).strip()
        if rest:
            raise ValueError(f"unparsed text in OPB constraint: {rest!r}")
        cons.append((terms, m.group(1), int(m.group(2))))
    return cons


def holds(con, asg):
    terms, op, c = con
    s = sum(co * (1 if asg[v] else 0) for co, v in terms)
    return {">=": s >= c, "<=": s <= c, "=": s == c}[op]


def satisfied(cons, asg):
    return all(holds(c, asg) for c in cons)
