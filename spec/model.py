"""Plain-data design descriptions, their construction through sweetpea's public API, and an independent
reference reading of the documentation (docs/_source/api/*.rst): geometry (trial count, preambles, crossing
chunks, repetition windows) and the three-valued validity predicate `classify`.

Nothing here imports or calls library internals except `build`, which uses only the public constructors.
Where the documentation is silent the predicate answers AMBIG and checks must not demand either outcome;
each such decision is listed in spec/ORACLE_DECISIONS.md.

Description format (JSON-able):
  factor   {"name": str, "levels": [[name, weight], ...]}
           {"name": str, "levels": [[name, weight], ...], "derive": {"kind": "within"|"transition"|"window",
             "deps": [names], "width": int, "stride": int, "start": int|None,
             "table": {key: [level names accepting the key]}, "else": level name|None}}
           key = "|".join over deps of ",".join over window positions oldest..newest of level name, "~" for None
  block    {"kind": "cross", "design": [...], "crossing": [...], "constraints": [...], "rcc": bool}
           {"kind": "multi", "design", "crossings": [[...]], "constraints", "rcc", "mode", "alignment"}
           {"kind": "repeat", "block": B, "constraints": [...]}
           {"kind": "merge", "blocks": [B...], "constraints", "mode", "alignment"}
           {"kind": "nest", "outer": B, "inner": B, "constraints": [...]}
  constraint ["Exclude", f, l] ["Pin", idx, f, l] ["MinimumTrials", k] ["AtMostKInARow", k, f, l|None]
           ["AtLeastKInARow", k, f, l|None] ["ExactlyKInARow", k, f, l|None] ["ExactlyK", k, f, l|None]
           ["Sequential", f] ["LatinSquare", [f...]]
"""
from __future__ import annotations

import itertools
import math

VALID, INVALID, AMBIG = "valid", "invalid", "ambiguous"


class Unsupported(Exception):
    """The reference reading does not cover this construction (outside the oracle's domain)."""


# --------------------------------------------------------------------------------------------- factors
def fac(name, levels, derive=None):
    lv = [[l, 1] if not isinstance(l, (list, tuple)) else [l[0], l[1]] for l in levels]
    d = {"name": name, "levels": lv}
    if derive:
        d["derive"] = derive
    return d


def key_of(values_per_dep):
    return "|".join(",".join("~" if v is None else str(v) for v in vals) for vals in values_per_dep)


def derive(kind, deps, fn=None, table=None, width=None, stride=1, start=None, levels=None, else_level=None, dep_levels=None):
    """fn(level_name, *windows) -> bool, windows[i] = tuple oldest..newest of names/None for dep i.
    The table is computed for all windows incl. None entries so that predicates are total functions of it."""
    width = {"within": 1, "transition": 2}.get(kind, width)
    if table is None:
        table = {}
        per_dep = [list(itertools.product(dl + [None], repeat=width)) for dl in dep_levels]
        for combo in itertools.product(*per_dep):
            acc = [l for l in levels if l != else_level and fn(l, *combo)]
            table[key_of(combo)] = acc
    return {"kind": kind, "deps": list(deps), "width": width, "stride": stride, "start": start, "table": table, "else": else_level}


def factor_map(desc):
    return {f["name"]: f for f in desc["factors"]}


def level_names(f):
    return [l[0] for l in f["levels"]]


def weight_sum(f):
    return sum(l[1] for l in f["levels"])


def is_derived(f):
    return "derive" in f


def f_start(fm, f):
    """first trial (0-based) at which factor f has a level (derivations.rst, Window `start`)"""
    if not is_derived(f):
        return 0
    d = f["derive"]
    if d["start"] is not None:
        return d["start"]
    return (d["width"] - 1) + max([f_ready(fm, fm[g]) for g in d["deps"]] + [0])


def f_ready(fm, f):
    return f_start(fm, f) if is_derived(f) else 0


def f_stride(f):
    return f["derive"]["stride"] if is_derived(f) else 1


def applies(fm, f, t, sustain=1):
    """does factor f have a level at trial t (0-based)"""
    if not is_derived(f):
        return True
    u = t // sustain
    s = f_start(fm, f)
    return u >= s and (u - s) % f_stride(f) == 0


def accepted_levels(f, windows):
    """levels of derived factor f whose derivation accepts the window (list; ElseLevel matches when no other does)"""
    d = f["derive"]
    acc = list(d["table"].get(key_of(windows), []))
    if d["else"] is not None and not acc:
        acc = [d["else"]]
    return acc


# --------------------------------------------------------------------------------------------- geometry from the docs
def ceil_div(a, b):
    return -((-a) // b)


def _constraints_of(kind, cs):
    return [c for c in cs if c[0] == kind]


def _min_trials(cs):
    ks = [c[1] for c in _constraints_of("MinimumTrials", cs)]
    return max(ks) if ks else 0


def all_combos(fm, crossing):
    return list(itertools.product(*[level_names(fm[f]) for f in crossing]))


def combo_weight(fm, crossing, combo):
    w = 1
    for f, l in zip(crossing, combo):
        w *= dict(map(tuple, fm[f]["levels"]))[l]
    return w


def excluded_combos(desc, design, crossing, constraints):
    """CrossBlock doc: combinations removed from a crossing — those containing an excluded level of a crossed factor, and
    those made impossible by a crossed within-trial derived factor's definition.  Exclude of an uncrossed derived level that
    rules out whole combinations is outside this oracle (Unsupported)."""
    fm = factor_map(desc)
    out = set()
    excl = [(c[1], c[2]) for c in _constraints_of("Exclude", constraints)]
    combos = all_combos(fm, crossing)
    for combo in combos:
        asg = dict(zip(crossing, combo))
        if any(asg.get(f) == l for f, l in excl):
            out.add(combo)
            continue
        for f in crossing:
            F = fm[f]
            if is_derived(F) and F["derive"]["width"] == 1 and F["derive"]["stride"] == 1 and f_start(fm, F) == 0:
                deps = F["derive"]["deps"]
                if any(is_derived(fm[g]) for g in deps):
                    raise Unsupported("crossed derived factor depending on a derived factor")
                choices = [[asg[g]] if g in asg else level_names(fm[g]) for g in deps]
                if not any(asg[f] in accepted_levels(F, [(v,) for v in vals]) for vals in itertools.product(*choices)):
                    out.add(combo)
    # Exclude of a within-trial derived level whose factor is not in this crossing: a combination is impossible when EVERY completion by the design's
    # other basic factors gives some excluded level (the excludes act together: no trial can hold any of them).  Windows, derived sources: outside.
    outside = []
    for f, l in excl:
        if f not in crossing and is_derived(fm[f]):
            d = fm[f]["derive"]
            if any(is_derived(fm[g]) for g in d["deps"]) or d["width"] > 1 or d["stride"] > 1 or f_start(fm, fm[f]) != 0:
                if any(g in crossing or is_derived(fm[g]) for g in d["deps"]) or d["width"] > 1:
                    raise Unsupported("Exclude of an uncrossed derived level that interacts with the crossing")
                continue
            if any(g in crossing for g in d["deps"]):
                outside.append((f, l))
    if outside:
        free = sorted({g for f, _ in outside for g in fm[f]["derive"]["deps"] if g not in crossing})
        for combo in combos:
            if combo in out:
                continue
            asg = dict(zip(crossing, combo))
            possible = False
            for vals in itertools.product(*[level_names(fm[g]) for g in free]):
                full = dict(asg, **dict(zip(free, vals)))
                if not any(l in accepted_levels(fm[f], [(full[g],) for g in fm[f]["derive"]["deps"]]) for f, l in outside):
                    possible = True
                    break
            if not possible:
                out.add(combo)
    return out


def geometry(desc, node=None):
    """-> dict(T, design, crossings=[dict(factors, sustain, cw, base(=#admissible weighted combos), size(=base*sustain),
                                        start, combos{combo: weight})],
              constraints=[(constraint, windows|None, scope_note)], errors=[...], alignment)
    following main.rst.  Raises Unsupported outside the covered constructions."""
    node = node or desc["block"]
    fm = factor_map(desc)
    k = node["kind"]
    if k in ("cross", "multi"):
        design = list(node["design"])
        crossings = [list(node["crossing"])] if k == "cross" else [list(c) for c in node["crossings"]]
        cs = list(node["constraints"])
        rcc = node.get("rcc", True)
        mode = "weight" if k == "cross" else node.get("mode", "equal")
        alignment = node.get("alignment", "equal preamble")
        errors = []
        cr = []
        for c in crossings:
            for f in c:
                if is_derived(fm[f]) and f_stride(fm[f]) > 1:
                    raise Unsupported("stride > 1 in crossing is rejected by the constructor")
            ex = excluded_combos(desc, design, c, cs)
            if ex and rcc:
                errors.append("complete crossing unsatisfiable")
            combos = {cb: combo_weight(fm, c, cb) for cb in all_combos(fm, c) if cb not in ex}
            base = sum(combos.values())
            pre = max([f_start(fm, fm[f]) for f in c] + [0])
            cr.append(dict(factors=c, sustain=1, base=base, size=base, preamble=pre, combos=combos, cw=1))
        if any(c["base"] == 0 for c in cr):
            raise Unsupported("empty crossing")
        if alignment == "equal preamble" and len({c["preamble"] for c in cr}) > 1:
            raise Unsupported("EQUAL_PREAMBLE with different preambles is rejected by the constructor")
        if alignment == "post preamble":
            # all crossings start after the latest preamble; a complex derived factor's explicit start also counts
            P = max([c["preamble"] for c in cr] + [f_start(fm, fm[f]) for f in design if is_derived(fm[f]) and _complex(fm, fm[f])])
            size = max(c["size"] for c in cr)
            T0 = P + size
            for c in cr:
                c["start"] = P
        else:
            T0 = max(c["preamble"] + c["size"] for c in cr)
            for c in cr:
                c["start"] = c["preamble"]
        T = max(T0, _min_trials(cs), 1)
        if mode != "repeat":
            for c in cr:
                w = ceil_div(T - (c["preamble"] if alignment != "post preamble" else c["preamble"]), c["size"])
                if mode == "equal" and w != 1:
                    raise Unsupported("RepeatMode.EQUAL with different crossing sizes is rejected by the constructor")
                c["cw"] = w
        cons = [(c, None) for c in cs if c[0] != "MinimumTrials"]
        return dict(T=T, design=design, crossings=cr, constraints=cons, errors=errors, alignment=alignment,
                    own=dict(T=T, preamble=cr[0]["preamble"] if alignment != "post preamble" else cr[0]["start"]))
    if k == "repeat":
        g = geometry(desc, node["block"])
        inner = node["block"]
        if inner["kind"] not in ("cross", "multi"):
            raise Unsupported("Repeat of a combinator")
        if _min_trials(inner["constraints"]):
            raise Unsupported("Repeat of a block that has its own MinimumTrials (window/chunk lengths differ; docs silent)")
        L, p = g["own"]["T"], g["own"]["preamble"]
        T = max(g["T"], _min_trials(node["constraints"]))
        windows = _windows(T, L, p, 0)
        cons = [(c, windows) for (c, w) in g["constraints"]] + [(c, None) for c in node["constraints"] if c[0] != "MinimumTrials"]
        if any(c[0] == "Exclude" for c in node["constraints"]):
            raise Unsupported("Exclude in Repeat constraints is documented as not allowed")
        return dict(T=T, design=g["design"], crossings=g["crossings"], constraints=cons, errors=g["errors"], alignment=g["alignment"],
                    own=dict(T=T, preamble=p))
    if k == "merge":
        subs = [geometry(desc, b) for b in node["blocks"]]
        for b in node["blocks"]:
            if b["kind"] not in ("cross", "multi"):
                raise Unsupported("Merge of combinators")
            if _min_trials(b["constraints"]):
                raise Unsupported("Merge of a block that has its own MinimumTrials (docs silent on window vs chunk length)")
        mode = node.get("mode", "repeat")
        alignment = node.get("alignment") or subs[0]["alignment"]
        # main.rst: "The default alignment uses the alignment of the first block"; an explicit alignment governs the merged crossings whatever the blocks had
        if not node.get("alignment") and any(g["alignment"] != alignment for g in subs):
            raise Unsupported("blocks with different alignments and no explicit alignment (docs name only the first block's)")
        design = []
        for g in subs:
            design += [f for f in g["design"] if f not in design]
        cr = [dict(c) for g in subs for c in g["crossings"]]
        seen = set()
        for c in cr:
            if set(c["factors"]) & seen:
                raise Unsupported("crossings of merged blocks must be disjoint")
            seen |= set(c["factors"])
        if alignment == "equal preamble" and len({c["preamble"] for c in cr}) > 1:
            raise Unsupported("EQUAL_PREAMBLE with different preambles is rejected by the constructor")
        if alignment == "post preamble":
            P = max(c["preamble"] for c in cr)
            T0 = P + max(c["size"] for c in cr)
            for c in cr:
                c["start"] = P
        else:
            T0 = max(c["preamble"] + c["size"] for c in cr)
            for c in cr:
                c["start"] = c["preamble"]
        T = max(T0, _min_trials(node["constraints"]), 1)
        if mode != "repeat":
            for c in cr:
                w = ceil_div(T - c["preamble"], c["size"])
                if mode == "equal" and w != 1:
                    raise Unsupported("RepeatMode.EQUAL with different crossing sizes is rejected by the constructor")
                c["cw"] = w
        cons = []
        for g, b in zip(subs, node["blocks"]):
            L, p = g["own"]["T"], g["own"]["preamble"]
            s0 = 0
            if alignment == "post preamble":
                s0 = max(c["preamble"] for c in cr) - p
            ws = _windows(T, L, p, s0)
            cons += [(c, ws) for (c, w) in g["constraints"]]
        cons += [(c, None) for c in node["constraints"] if c[0] != "MinimumTrials"]
        return dict(T=T, design=design, crossings=cr, constraints=cons, errors=[e for g in subs for e in g["errors"]], alignment=alignment,
                    own=dict(T=T, preamble=cr[0]["start"]))
    if k == "nest":
        go, gi = geometry(desc, node["outer"]), geometry(desc, node["inner"])
        for b in (node["outer"], node["inner"]):
            if b["kind"] != "cross":
                raise Unsupported("Nest of anything but CrossBlocks")
        if _min_trials(node["outer"]["constraints"]):
            raise Unsupported("Nest whose outer block has MinimumTrials")
        if _min_trials(node["inner"]["constraints"]):
            # main.rst: the outer block is scaled by "the number of trials in inner_block"; with a MinimumTrials that is a whole
            # number of weighted crossing rounds the inner run is unambiguous, otherwise chunks and runs disagree (docs silent)
            ci = gi["crossings"][0]
            if gi["T"] != ci["size"] * ci["cw"]:
                raise Unsupported("Nest whose inner block has a MinimumTrials that leaves a partial round")
        if any(c["preamble"] for c in go["crossings"] + gi["crossings"]):
            raise Unsupported("Nest with preamble trials (docs only define the preamble-free length)")
        inner_len = gi["T"]
        design = list(go["design"]) + [f for f in gi["design"] if f not in go["design"]]
        cr = []
        for c in go["crossings"]:
            c = dict(c)
            c["sustain"] = inner_len * c["sustain"]
            c["size"] = c["base"] * c["sustain"]
            cr.append(c)
        cr += [dict(c) for c in gi["crossings"]]
        if set(go["crossings"][0]["factors"]) & set(gi["crossings"][0]["factors"]):
            raise Unsupported("a factor cannot be crossed in both blocks")
        T = max(max(c["preamble"] + c["size"] for c in cr), _min_trials(node["constraints"]))
        if T % inner_len != 0:
            # a MinimumTrials given to the Nest itself that leaves an incomplete group of inner trials: the documentation does not say whether the
            # count is rounded up to whole groups (the library rounds up to a multiple of the sustain count)
            raise Unsupported("MinimumTrials on a Nest that is not a multiple of the inner run length (rounding is not documented)")
        cons = []
        for (c, w) in go["constraints"]:
            if c[0] in ("AtMostKInARow", "AtLeastKInARow", "ExactlyKInARow", "ExactlyK", "Pin", "Sequential"):
                raise Unsupported("run-length / Pin / count constraints on the outer block of a Nest: docs do not say whether they count trials or groups")
            cons.append((c, _windows(T, go["T"] * inner_len, 0, 0)))
        cons += [(c, _windows(T, inner_len, 0, 0)) for (c, w) in gi["constraints"]]
        cons += [(c, None) for c in node["constraints"] if c[0] != "MinimumTrials"]
        return dict(T=T, design=design, crossings=cr, constraints=cons, errors=go["errors"] + gi["errors"], alignment=go["alignment"],
                    own=dict(T=T, preamble=0))
    raise Unsupported(f"block kind {k}")


def _complex(fm, f):
    if not is_derived(f):
        return False
    d = f["derive"]
    return d["width"] > 1 or d["stride"] > 1 or f_start(fm, f) > 0 or _complex(fm, fm[d["deps"][0]])


def _windows(T, L, p, s0):
    """main.rst (Merge): constraints of a block apply to individual repetitions of the block; each repetition is the
    block's L trials, its first p (preamble) trials being the last p trials of the previous repetition; a last partial
    repetition ends with the sequence."""
    out = []
    s = s0
    while s < T - p:
        out.append((s, min(s + L, T)))
        s += L - p
    return out


# --------------------------------------------------------------------------------------------- validity
def run_lengths(vals, level):
    runs, n = [], 0
    for v in vals:
        if v == level:
            n += 1
        elif n:
            runs.append(n)
            n = 0
    if n:
        runs.append(n)
    return runs


def _run_verdict(kind, k, runs, vals, l, partial_last):
    if kind == "AtMostKInARow":
        return all(r <= k for r in runs)
    if kind == "ExactlyK":
        return sum(runs) == k
    if kind == "AtLeastKInARow":
        return all(r >= k for r in runs)
    return all(r == k for r in runs)


def _levels_for(fm, c):
    """constraint on a whole factor = one constraint per level (constraints.rst)"""
    f, l = c[2], c[3] if len(c) > 3 else None
    return [l] if l is not None else level_names(fm[f])


def check_constraint(fm, c, seq, T, window, partial_last):
    """-> VALID / INVALID / AMBIG for constraint c over the trial window [s, e)"""
    s, e = window
    kind = c[0]
    if kind == "Exclude":
        return INVALID if c[2] in seq[c[1]][s:e] else VALID
    if kind == "Pin":
        idx, f, l = c[1], c[2], c[3]
        n = e - s
        t = s + idx if idx >= 0 else e + idx
        if not (s <= t < e):
            # constraints.rst: index out of range => no satisfying sequences; for a partial last repetition the docs are silent
            return AMBIG if partial_last else INVALID
        if partial_last and idx < 0:
            return AMBIG            # "-1 refers to the last trial": of the truncated or of the discarded full repetition?
        return VALID if seq[f][t] == l else INVALID
    if kind in ("AtMostKInARow", "AtLeastKInARow", "ExactlyKInARow", "ExactlyK"):
        k, f = c[1], c[2]
        res = VALID
        for l in _levels_for(fm, c):
            vals = seq[f][s:e]
            if is_derived(fm[f]) and f_stride(fm[f]) > 1:
                # "k consecutive trials" for a factor that has a level only every stride-th trial: the docs do not say whether
                # the empty trials in between end a run; demand nothing where the two readings differ
                r1 = _run_verdict(kind, k, run_lengths(vals, l), vals, l, partial_last)
                r2 = _run_verdict(kind, k, run_lengths([v for v in vals if v != ""], l), vals, l, partial_last)
                if r1 != r2:
                    res = AMBIG if res == VALID else res
                    continue
            runs = run_lengths(vals, l)
            if kind == "AtMostKInARow":
                ok = all(r <= k for r in runs)
                amb = False
            elif kind == "ExactlyK":
                ok = sum(runs) == k
                amb = partial_last          # exactly k in a truncated repetition: docs silent
            else:
                cmp = (lambda r: r >= k) if kind == "AtLeastKInARow" else (lambda r: r == k)
                ok = all(cmp(r) for r in runs)
                # a run cut by the end of a truncated repetition: docs silent
                amb = partial_last and bool(vals) and vals[-1] == l
            if not ok:
                if amb:
                    res = AMBIG if res == VALID else res
                else:
                    return INVALID
            elif amb and kind == "ExactlyK":
                res = AMBIG if res == VALID else res
        return res
    raise Unsupported(f"constraint {kind} in a window")


def classify(desc, seq, geo=None):
    """three-valued validity of a trial sequence {factor name: [level names, '' where the factor has no level]}"""
    fm = factor_map(desc)
    g = geo or geometry(desc)
    T = g["T"]
    if g["errors"]:
        return INVALID          # the design has no valid sequence
    sustain = {f: 1 for f in g["design"]}
    for c in g["crossings"]:
        for f in c["factors"]:
            sustain[f] = c["sustain"]
    # 1. length, levels
    for f in g["design"]:
        if f not in seq or len(seq[f]) != T:
            return INVALID
        names = level_names(fm[f])
        for t, v in enumerate(seq[f]):
            if applies(fm, fm[f], t, sustain[f]):
                if v not in names:
                    return INVALID
            elif v != "":
                return INVALID
    # 2. derivations
    for f in g["design"]:
        F = fm[f]
        if not is_derived(F):
            continue
        d = F["derive"]
        c_ = sustain[f]
        for t in range(T):
            if not applies(fm, F, t, c_):
                continue
            wins = []
            for dep in d["deps"]:
                vals = []
                for k in range(d["width"] - 1, -1, -1):
                    idx = t - k * c_
                    v = seq[dep][idx] if idx >= 0 else None
                    vals.append(None if v in ("", None) else v)
                wins.append(tuple(vals))
            acc = accepted_levels(F, wins)
            if len(acc) != 1:
                return INVALID      # not a function of the window: the design itself is rejected / has no sequences (C15)
            if seq[f][t] != acc[0]:
                return INVALID
    # 3. sustain (Nest): constant over each group
    for f in g["design"]:
        c_ = sustain[f]
        if c_ > 1:
            for t in range(T):
                if seq[f][t] != seq[f][(t // c_) * c_]:
                    return INVALID
    # 4. crossings
    for c in g["crossings"]:
        chunk = c["size"] * c["cw"]
        s = c["start"]
        while s < T:
            e = min(s + chunk, T)
            counts = {}
            for t in range(s, e):
                cb = tuple(seq[f][t] for f in c["factors"])
                counts[cb] = counts.get(cb, 0) + 1
            for cb, n in counts.items():
                if cb not in c["combos"]:
                    return INVALID
            for cb, w in c["combos"].items():
                want = w * c["cw"] * c["sustain"]
                n = counts.get(cb, 0)
                if (e - s == chunk and n != want) or n > want:
                    return INVALID
            s += chunk
    # 5. constraints
    res = VALID
    for (c, windows) in g["constraints"]:
        kind = c[0]
        if kind == "Sequential":
            r = _sequential(fm, g, c, seq, T, sustain, windows)
        elif kind == "LatinSquare":
            r = _latin(fm, g, c, seq, T, sustain)
        else:
            ws = windows if windows is not None else [(0, T)]
            r = VALID
            for (s, e) in ws:
                full = windows is None or (e - s) == (ws[0][1] - ws[0][0])
                ri = check_constraint(fm, c, seq, T, (s, e), partial_last=not full)
                if ri == INVALID:
                    r = INVALID
                    break
                if ri == AMBIG:
                    r = AMBIG
        if r == INVALID:
            return INVALID
        if r == AMBIG:
            res = AMBIG
    return res


def _latin(fm, g, c, seq, T, sustain):
    """constraints.rst: with N the largest level count, every N trials include every level of every factor of N levels ...
    and successive segments use distinct, deterministically ordered combinations.  Only the first, checkable part is demanded
    (a factor with N levels never repeats a level inside a complete segment of N crossing trials); everything else is AMBIG."""
    fs = c[1]
    N = max(len(level_names(fm[f])) for f in fs)
    start = 0
    for cr in g["crossings"]:
        if fs[0] in cr["factors"]:
            start = cr["start"]
    cs = sustain[fs[0]]
    s = start
    while s < T:
        e = min(s + N * cs, T)
        for f in fs:
            if len(level_names(fm[f])) == N:
                vals = [seq[f][t] for t in range(s, e, cs)]
                if len(set(vals)) != len(vals):
                    return INVALID
        s += N * cs
    return AMBIG if len(fs) > 1 else VALID


def _sequential(fm, g, c, seq, T, sustain, windows=None):
    """constraints.rst: the levels of the factor appear in order, restarting with the first level after the last.
    Which level the sequence starts with, and what happens in preamble trials, is not stated: only the cyclic successor
    relation between consecutive (groups of) crossing trials is demanded; a start other than the first level is AMBIG.
    A Sequential given to a block that was later combined is read per repetition window like every other block
    constraint (main.rst, Merge: "Constraints associated with a block ... apply to individual repetitions"; Nest: the
    inner block is repeated): the successor relation is demanded inside each repetition, not across its boundary."""
    f = c[1]
    names = level_names(fm[f])
    n = len(names)
    start = 0
    for cr in g["crossings"]:
        if f in cr["factors"]:
            start = cr["start"]
    cs = sustain[f]
    ws = windows if windows else [(0, T)]
    off = max(start - ws[0][0], 0)          # preamble trials at the head of a repetition window
    res = VALID
    for j, (s, e) in enumerate(ws):
        lo = s + off
        hi = ws[j + 1][0] + off if j + 1 < len(ws) else T
        vals = [seq[f][t] for t in range(lo, min(hi, T), cs)]
        for a, b in zip(vals, vals[1:]):
            if names.index(b) != (names.index(a) + 1) % n:
                return INVALID
        if vals and vals[0] != names[0]:
            res = AMBIG
    return res


# --------------------------------------------------------------------------------------------- enumeration of the valid set
def enumerate_sequences(desc, geo=None, limit=300_000):
    """all candidate sequences over the basic factors (derived levels filled in by their definition) -> iterator of seq dicts.
    Raises Unsupported when the space exceeds `limit`."""
    fm = factor_map(desc)
    g = geo or geometry(desc)
    T = g["T"]
    sustain = {f: 1 for f in g["design"]}
    for c in g["crossings"]:
        for f in c["factors"]:
            sustain[f] = c["sustain"]
    basics = [f for f in g["design"] if not is_derived(fm[f])]
    deriveds = [f for f in g["design"] if is_derived(fm[f])]
    # order derived factors by dependency depth
    def depth(f):
        return 0 if not is_derived(fm[f]) else 1 + max(depth(d) for d in fm[f]["derive"]["deps"])
    deriveds.sort(key=depth)
    for f in deriveds:
        if any(d not in g["design"] for d in fm[f]["derive"]["deps"]):
            raise Unsupported("derived factor depends on a factor outside the design")
    sizes = []
    for f in basics:
        groups = ceil_div(T, sustain[f])
        sizes.append(len(set(level_names(fm[f]))) ** groups)
    total = math.prod(sizes) if sizes else 1
    if total > limit:
        raise Unsupported(f"sequence space {total} exceeds {limit}")
    per_factor = []
    for f in basics:
        names = sorted(set(level_names(fm[f])), key=level_names(fm[f]).index)
        groups = ceil_div(T, sustain[f])
        per_factor.append([[v for v in combo for _ in range(sustain[f])][:T] for combo in itertools.product(names, repeat=groups)])
    for choice in itertools.product(*per_factor):
        seq = {f: list(vals) for f, vals in zip(basics, choice)}
        ok = True
        for f in deriveds:
            F = fm[f]
            d = F["derive"]
            c_ = sustain[f]
            out = []
            for t in range(T):
                if not applies(fm, F, t, c_):
                    out.append("")
                    continue
                wins = []
                for dep in d["deps"]:
                    vals = []
                    for k in range(d["width"] - 1, -1, -1):
                        idx = t - k * c_
                        v = seq[dep][idx] if idx >= 0 else None
                        vals.append(None if v in ("", None) else v)
                    wins.append(tuple(vals))
                acc = accepted_levels(F, wins)
                if len(acc) != 1:
                    ok = False
                    break
                out.append(acc[0])
            if not ok:
                break
            seq[f] = out
        if ok:
            yield seq


def space_size(desc):
    """number of candidate sequences over the basic factors (the bound that defines D)"""
    fm = factor_map(desc)
    g = geometry(desc)
    sustain = {f: 1 for f in g["design"]}
    for c in g["crossings"]:
        for f in c["factors"]:
            sustain[f] = c["sustain"]
    total = 1
    for f in g["design"]:
        if not is_derived(fm[f]):
            total *= len(set(level_names(fm[f]))) ** ceil_div(g["T"], sustain[f])
    return total


def valid_sets(desc, limit=300_000):
    """-> (definitely valid, ambiguous) as lists of canonical sequence keys"""
    g = geometry(desc)
    lo, amb = [], []
    for seq in enumerate_sequences(desc, g, limit):
        r = classify(desc, seq, g)
        if r == VALID:
            lo.append(seq_key(seq, g["design"]))
        elif r == AMBIG:
            amb.append(seq_key(seq, g["design"]))
    return lo, amb


def seq_key(seq, design):
    return tuple((f, tuple(seq[f])) for f in sorted(design))


# --------------------------------------------------------------------------------------------- construction through the public API
def build(desc, shared=None):
    """-> (block, objects) built with sweetpea's public constructors only; `shared` may carry factor/constraint objects
    from an earlier build (C18)."""
    import sweetpea as sp
    objs = shared if shared is not None else {"factors": {}, "constraints": {}}
    fm = factor_map(desc)

    def get_factor(name):
        if name in objs["factors"]:
            return objs["factors"][name]
        F = fm[name]
        if not is_derived(F):
            f = sp.Factor(name, [sp.Level(l, w) if w != 1 else l for l, w in F["levels"]])
        else:
            d = F["derive"]
            deps = [get_factor(g) for g in d["deps"]]
            lv = []
            for l, w in F["levels"]:
                if d["else"] == l:
                    lv.append(sp.ElseLevel(l, w) if w != 1 else sp.ElseLevel(l))
                    continue
                pred = _predicate(d, l)
                if d["kind"] == "within":
                    win = sp.WithinTrial(pred, deps)
                elif d["kind"] == "transition":
                    win = sp.Transition(pred, deps)
                else:
                    win = sp.Window(pred, deps, d["width"], d["stride"], d["start"]) if d["start"] is not None else sp.Window(pred, deps, d["width"], d["stride"])
                lv.append(sp.DerivedLevel(l, win, w) if w != 1 else sp.DerivedLevel(l, win))
            f = sp.Factor(name, lv)
        objs["factors"][name] = f
        return f

    def get_continuous(name):
        if name not in objs["factors"]:
            objs["factors"][name] = sp.ContinuousFactor(name, distribution=sp.UniformDistribution(0, 1))
        return objs["factors"][name]

    def get_constraint(c, path):
        key = repr(c) if objs.get("share_constraints_by_value") else (path, repr(c))
        if key in objs["constraints"]:
            return objs["constraints"][key]
        kind = c[0]
        lvl = lambda f, l: (get_factor(f), l) if l is not None else get_factor(f)
        if kind == "Exclude":
            o = sp.Exclude((get_factor(c[1]), c[2]))
        elif kind == "Pin":
            o = sp.Pin(c[1], (get_factor(c[2]), c[3]))
        elif kind == "MinimumTrials":
            o = sp.MinimumTrials(c[1])
        elif kind in ("AtMostKInARow", "AtLeastKInARow", "ExactlyKInARow", "ExactlyK"):
            o = getattr(sp, kind)(c[1], lvl(c[2], c[3] if len(c) > 3 else None))
        elif kind == "Sequential":
            o = sp.Sequential(get_factor(c[1]))
        elif kind == "LatinSquare":
            o = sp.LatinSquare([get_factor(f) for f in c[1]])
        else:
            raise Unsupported(kind)
        objs["constraints"][key] = o
        return o

    def framed(ctor, *args, **kw):
        """call a block constructor and check its frame condition on the way: list arguments handed in by the caller and the
        constructor's own default argument values are left as they were (C18: nothing outside the new block is written)"""
        import copy as _copy
        import inspect as _inspect
        lists = [(i, a, list(a), [list(x) if isinstance(x, list) else x for x in a]) for i, a in enumerate(args) if isinstance(a, list)]
        init = ctor.__init__
        before = [_copy.copy(d) if isinstance(d, (list, dict, set)) else d for d in (init.__defaults__ or ())]
        blk = ctor(*args, **kw)
        for i, a, shallow, deep in lists:
            now = [list(x) if isinstance(x, list) else x for x in a]
            if len(a) != len(shallow) or any(x is not y for x, y in zip(a, shallow)) or any(isinstance(d, list) and d != n for d, n in zip(deep, now)):
                objs.setdefault("frame", []).append(f"{ctor.__name__}: list argument #{i} was modified by the constructor (length {len(shallow)} -> {len(a)})")
        after = list(init.__defaults__ or ())
        for j, (b_, a_) in enumerate(zip(before, after)):
            if isinstance(b_, (list, dict, set)) and b_ != a_:
                objs.setdefault("frame", []).append(f"{ctor.__name__}.__init__: default value of parameter #{j} changed from {b_!r} to a value of length {len(a_)}")
        return blk

    def mk(node, path):
        k = node["kind"]
        cons = [get_constraint(c, path) for c in node.get("constraints", [])]
        if objs.get("share_lists") and cons:
            # a user who writes `cs = [...]` once and hands the same list to several constructors
            cons = objs.setdefault("lists", {}).setdefault(repr(node.get("constraints")), cons)
        # optional "continuous": [names] — continuous factors the user declares after the discrete ones (they do not take part in the discrete oracle)
        cont = [get_continuous(z) for z in node.get("continuous", [])]
        if k == "cross":
            return framed(sp.CrossBlock, [get_factor(f) for f in node["design"]] + cont, [get_factor(f) for f in node["crossing"]], cons, node.get("rcc", True))
        if k == "multi":
            return framed(sp.MultiCrossBlock, [get_factor(f) for f in node["design"]] + cont, [[get_factor(f) for f in c] for c in node["crossings"]], cons,
                          node.get("rcc", True), mode=node.get("mode", "equal"), alignment=node.get("alignment", "equal preamble"))
        if k == "repeat":
            return framed(sp.Repeat, mk(node["block"], path + "/b"), cons)
        # Merge and Nest declare `constraints=[]`: like a user, leave the argument out when there is nothing to pass
        opt = [cons] if cons else []
        if k == "merge":
            kw = {}
            if "mode" in node:
                kw["mode"] = node["mode"]
            if node.get("alignment") is not None:
                kw["alignment"] = node["alignment"]
            return framed(sp.Merge, [mk(b, f"{path}/{i}") for i, b in enumerate(node["blocks"])], *opt, **kw)
        if k == "nest":
            return framed(sp.Nest, mk(node["outer"], path + "/o"), mk(node["inner"], path + "/i"), *opt)
        raise Unsupported(k)
    return mk(desc["block"], ""), objs


def _predicate(d, level):
    table, width, ndeps = d["table"], d["width"], len(d["deps"])

    if width == 1:
        def pred(*args):
            return level in table.get(key_of([(a,) for a in args]), [])
    else:
        def pred(*args):
            wins = [tuple(a[i] for i in range(-(width - 1), 1)) for a in args]
            return level in table.get(key_of(wins), [])
    pred.__name__ = f"is_{level}"
    # the library inspects the arity of predicates in some places: give it the exact signature
    import inspect
    params = [inspect.Parameter(f"a{i}", inspect.Parameter.POSITIONAL_OR_KEYWORD) for i in range(ndeps)]
    pred.__signature__ = inspect.Signature(params)
    return pred
