"""Run bounded checks of whole designs in killable worker processes (never signal.alarm: the library catches
Exception around pycryptosat and would fall back to downloading a binary)."""
from __future__ import annotations

import contextlib
import io
import multiprocessing as mp
import os
import shutil
import tempfile
import time
import traceback
from pathlib import Path

_WORK = Path(__file__).resolve().parent.parent / ".work"


def quiet(fn, *a, **k):
    buf = io.StringIO()
    with contextlib.redirect_stdout(buf):
        return fn(*a, **k)


def synth(block, n, strategy_name):
    import sweetpea as sp
    return quiet(sp.synthesize_trials, block, n, getattr(sp, strategy_name))


def _child(conn, fn, arg, scratch=None):
    try:
        os.environ["PYTHONWARNINGS"] = "ignore"
        if scratch:
            os.chdir(scratch)       # the library writes <uuid>.cnf into the cwd; a killed worker would leave it behind
        res = fn(arg)
        conn.send(("ok", res))
    except BaseException as e:          # noqa
        conn.send(("exc", (type(e).__name__, str(e)[:500], traceback.format_exc()[-3000:])))
    finally:
        conn.close()


def pmap(fn, args, jobs=12, timeout=60.0):
    """-> list of (status, result) aligned with args; status in ok / exc / timeout.  fn must be a module-level function."""
    ctx = mp.get_context("fork")
    _WORK.mkdir(parents=True, exist_ok=True)
    scratch = tempfile.mkdtemp(prefix="cwd-", dir=_WORK)
    try:
        return _pmap(ctx, fn, args, jobs, timeout, scratch)
    finally:
        shutil.rmtree(scratch, ignore_errors=True)


def _pmap(ctx, fn, args, jobs, timeout, scratch):
    out = [None] * len(args)
    pending = list(enumerate(args))
    running = {}
    while pending or running:
        while pending and len(running) < jobs:
            i, a = pending.pop(0)
            pc, cc = ctx.Pipe(duplex=False)
            p = ctx.Process(target=_child, args=(cc, fn, a, scratch), daemon=True)
            p.start()
            cc.close()
            running[i] = (p, pc, time.time())
        done = []
        for i, (p, pc, t0) in running.items():
            if pc.poll(0):
                try:
                    out[i] = pc.recv()
                except EOFError:
                    out[i] = ("exc", ("EOFError", "worker died", ""))
                p.join(1)
                done.append(i)
            elif not p.is_alive():
                out[i] = ("exc", ("WorkerDied", f"exit code {p.exitcode}", ""))
                done.append(i)
            elif time.time() - t0 > timeout:
                p.kill()
                p.join(1)
                out[i] = ("timeout", timeout)
                done.append(i)
        for i in done:
            running.pop(i)[1].close()
        if not done:
            time.sleep(0.01)
    return out


def seq_key_from_experiment(exp, design):
    return tuple((f, tuple(exp[f])) for f in sorted(design))
