"""./vcheck --replay <file>: re-execute a replay file against the real code; exit 1 iff the failure still shows."""
import json
import sys


def main():
    p = json.load(open(sys.argv[1]))
    print("replaying", p.get("property"), p.get("obligation"), p.get("key"))
    still = None
    if p.get("replay_kind") == "design":
        from checks.sys_checks import replay
        still = replay(p)
    elif p.get("replay_kind") == "pair" and "rename_back" in p:
        from checks.sys_checks import replay_pair
        still = replay_pair(p)
    elif p.get("replay_kind") == "script":
        import subprocess
        pr = subprocess.run([sys.executable, "-c", p["script"]] + list(p.get("argv", [])), capture_output=True, text=True, timeout=300, cwd="/")
        out = pr.stdout + pr.stderr
        print("native: exit status", pr.returncode, "output tail", repr(out[-200:]))
        still = "RETURNED 0" not in out
    elif p.get("replay_kind") == "nest-reuse":
        from checks.sys_checks import _nest_reuse_eval
        r = _nest_reuse_eval(p["variant"])
        print("native:", r)
        still = bool(r.get("diffs")) or "exception" in r
    elif p.get("replay_kind") == "latin":
        from checks.sys_checks import _latin_eval
        r = _latin_eval((tuple(p["sizes"]), p["strategy"], 12))
        print("native:", {k: v for k, v in r.items() if k != "bad"}, (r.get("bad") or [[None]])[0][0])
        still = bool(r.get("n_bad")) or "exception" in r
    elif p.get("replay_kind") == "pair" and "left" in p and "right" in p:
        from checks.sys_checks import replay_equiv
        still = replay_equiv(p)
    elif "native_failure" in p and p.get("function", "").startswith("sweetpea._internal.core.cnf:CNF."):
        from checks.cnf_common import native_check
        name = p["function"].rsplit(".", 1)[1]
        model = p.get("solver_model") if isinstance(p.get("solver_model"), dict) else None
        f = native_check(name, tuple(p["shape"]), model) or native_check(name, tuple(p["shape"]), None)
        print("native:", f)
        still = f is not None
    elif p.get("function") and "native_failure" in p:
        from pyvc import nativespec
        from contracts.wpc import W
        for c in W.values():
            if c["target"] == p["function"]:
                n, ok, fail = nativespec.check_native(c)
                print("native:", n, ok, fail)
                still = fail is not None
    elif p.get("property") == "C11" and p.get("formula"):
        import sweetpea._internal.logic as Lg
        from sweetpea._internal.logic import And, Or, If, Iff, Not      # noqa: F401 (names used by eval of the formula repr)
        from checks import c11
        f = eval(p["formula"])
        name = p["function"].rsplit("to_cnf_", 1)[1]
        r = c11.check_one(name, getattr(Lg, "to_cnf_" + name), f, p["next_variable"], c11.vars_of(f, set()) | {1, 2, 3})
        print("native:", r)
        still = r is not None
    elif p.get("property") == "C11" and p.get("kind") in ("key", "node"):
        import sweetpea._internal.logic as Lg
        from checks import c11
        from pyvc.report import Check
        ck = Check("C11", "quick", "other", "replay")
        c11.node_contracts(ck, Lg, "quick")
        print("native:", [v.get("what") for v in ck.viol][:3])
        still = bool(ck.viol)
    if still is None:
        print("no native replay available for this file (obligation-level report):", p.get("what"))
        sys.exit(2)
    print("STILL FAILS" if still else "does not fail any more")
    sys.exit(1 if still else 0)


if __name__ == "__main__":
    main()
