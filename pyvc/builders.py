"""Contract checking of the real CNF clause builders (core/cnf.py) by concolic execution.

For one builder contract at one concrete *shape* (list lengths, k, saturate_at) — variable ids, the
fresh counter F and the truth assignment `val` stay symbolic — the harness

  1. runs the unmodified method of /repo under pyvc.concolic, with the callees listed in
     `uses` replaced by *contract stubs* (they allocate the same fresh variables through the real
     get_fresh and append one opaque Segment whose meaning is the callee's postcondition),
  2. explores further paths until the path conditions cover the precondition (DART),
  3. discharges with z3/cvc5, for all ids and all assignments:
        path      every path-condition conjunct is implied by pre (or another path covers its negation)
        callpre   every callee precondition holds at its call site
        fresh     _num_vars grew by exactly the declared number of variables
        result    the returned ids are the declared ones
        frame     clauses present before the call are untouched and still come first
        defs      every fresh id is defined exactly once — by a callee segment or by a group of raw
                  clauses that fixes it as a function of smaller ids — and nothing else constrains it
                  (side condition of Lemma DE: unique satisfying extension, "no other freedom")
        post      pre /\\ PC /\\ callee facts /\\ raw definitions  ==>  declared facts
                  (leaf gates: added clauses <=> declared definitions, both directions)
        assert    for assertion builders: remaining raw clauses U satisfy  U <=> relation

A loop-free builder whose explored paths cover pre is proved for every input (tier P); builders
with list arguments are proved per shape (tier S).
"""
from __future__ import annotations

import time
from dataclasses import dataclass, field

import z3

from . import concolic as C
from .smt import check_sat, prove, model_int

import sweetpea._internal.core.cnf as cnfmod
from sweetpea._internal.core.cnf import CNF, Var, Clause

F_SHADOWS = (1000, 1733)


class Segment(Clause):
    """Opaque clause segment standing for a callee's postcondition (never rendered)."""

    def __init__(self, contract, shape, F, args_t, res_t):
        super().__init__()
        self.contract, self.shape, self.F, self.args_t, self.res_t = contract, shape, F, args_t, res_t


def to_terms(x):
    if x is None or isinstance(x, bool):
        return x
    if isinstance(x, Var):
        return C.lift(x._val)
    if isinstance(x, C.SymInt):
        return x.t
    if isinstance(x, int):
        return x
    if isinstance(x, (list, tuple)):
        return type(x)(to_terms(e) for e in x)
    raise C.Unsupported(f"to_terms: {type(x).__name__}")


def flat_terms(x):
    if x is None or isinstance(x, (bool, int)):
        return []
    if isinstance(x, (list, tuple)):
        return [t for e in x for t in flat_terms(e)]
    return [x]


def same_struct(a, b):
    """list of z3 equalities stating structures a and b (terms / None / ints / lists) are equal, or None if shapes differ"""
    if a is None or b is None:
        return [] if a is None and b is None else None
    if isinstance(a, (list, tuple)) or isinstance(b, (list, tuple)):
        if not (isinstance(a, (list, tuple)) and isinstance(b, (list, tuple))) or len(a) != len(b):
            return None
        out = []
        for x, y in zip(a, b):
            r = same_struct(x, y)
            if r is None:
                return None
            out += r
        return out
    return [(a if not isinstance(a, int) else z3.IntVal(a)) == (b if not isinstance(b, int) else z3.IntVal(b))]


@dataclass
class Contract:
    name: str                      # CNF method name
    shape_of: callable             # concrete args -> hashable shape
    make_args: callable            # (shape, sym) -> python args; sym(name) gives a fresh symbolic literal Var
    pre: callable                  # (F, a) -> [z3]      a = args as terms
    nfresh: callable               # shape -> int
    result: callable               # (F, a, shape) -> term structure
    facts: callable                # (val, F, a, res, shape) -> [z3]
    uses: tuple = ()
    defs: callable = None          # leaf gates: (val, F, a, res, shape) -> [(id_term, D)]
    relation: callable = None      # assertion builders: (val, F, a, shape) -> z3 Bool  (U <=> relation)
    loop_free: bool = False
    inputs_may_be_negative: bool = True


@dataclass
class Verdict:
    oid: str
    status: str          # proved / refuted / undecided
    secs: float = 0.0
    backend: str = "z3"
    detail: object = None
    model: object = None


class Harness:
    def __init__(self, contracts: dict, ms: int = 10_000):
        self.contracts = contracts
        self.ms = ms
        self.proved_shapes: set = set()        # (name, shape) whose every obligation was proved
        self.relied: dict = {}                 # (name, shape) -> set of callee (name, shape) used as stubs
        self.val = z3.Function("val", z3.IntSort(), z3.BoolSort())
        self.stats = dict(runs=0, paths=0, stub_calls=0, inlined_calls=0, hash_uses=0)

    # ------------------------------------------------------------------
    def _stub(self, cname):
        con = self.contracts[cname]
        harness = self
        real = getattr(CNF, cname)

        def stub(cnf_self, *args):
            shape = con.shape_of(*args)
            # modular: the caller is checked against the callee's contract, never its body; a callee shape that
            # was not itself verified in this run is reported by the driver (closure over `relied`).
            harness.stats["stub_calls"] += 1
            harness._cur_relied.add((cname, shape))
            F = C.lift(cnf_self._num_vars)
            a = to_terms(list(args))
            harness._callpre.append((cname, shape, con.pre(F, a)))
            fresh = [cnf_self.get_fresh() for _ in range(con.nfresh(shape))]
            res_t = con.result(F, a, shape)
            byoff = {i + 1: v for i, v in enumerate(fresh)}
            inputs = flat_vars(list(args))

            def build(t):
                if t is None:
                    return None
                if isinstance(t, (list, tuple)):
                    return type(t)(build(e) for e in t)
                d = z3.simplify(t - F)
                if z3.is_int_value(d) and d.as_long() in byoff:
                    return byoff[d.as_long()]
                for v in inputs:
                    if z3.eq(C.lift(v._val), t):
                        return v
                raise C.Unsupported(f"stub {cname}: cannot rebuild result term {t}")
            res = build(res_t)
            cnf_self._vals.append(Segment(con, shape, F, a, res_t))
            if getattr(con, "result_is_args_after", False):
                for lst, new in zip(args, res):
                    lst[:] = new
                return None
            return res
        return stub, real

    # ------------------------------------------------------------------
    def _run_once(self, con: Contract, shape, shadows: dict, fsh: int):
        """One concolic execution of the real method.  shadows: name -> int for input literals."""
        F = z3.Int("F")
        names = []

        def sym(name):
            t = z3.Int(name)
            names.append((name, t))
            v = Var.__new__(Var)          # no decision outside the Run: `!= 0` is part of pre
            v._val = C.SymInt(shadows.get(name, len(names)), t)
            return v
        args = con.make_args(shape, sym)
        a_before = to_terms(list(args))
        cnf = CNF()
        cnf._num_vars = C.SymInt(fsh, F)
        pre_clauses = [Clause([1, -2]), Clause([2])]
        cnf._vals.extend(pre_clauses)
        self._callpre = []
        self._cur_relied = set()
        patched = []
        run = C.Run()
        exc = None
        res = None
        try:
            for u in con.uses:
                st, real = self._stub(u)
                patched.append((u, real))
                setattr(CNF, u, st)
            with C.shadowed(cnfmod), run:
                try:
                    res = getattr(cnf, con.name)(*args)
                except C.Unsupported:
                    raise
                except Exception as e:     # the real code raised under its precondition
                    exc = e
        finally:
            for u, real in patched:
                setattr(CNF, u, real)
        self.stats["runs"] += 1
        self.stats["hash_uses"] += run.hash_uses
        frame_ok = len(cnf._vals) >= 2 and cnf._vals[0] is pre_clauses[0] and cnf._vals[1] is pre_clauses[1] \
            and [C._int(v._val) for v in pre_clauses[0]._vals] == [1, -2] and [C._int(v._val) for v in pre_clauses[1]._vals] == [2]
        return dict(F=F, names=names, a=a_before, res=None if exc else to_terms(res), pc=list(run.pc), exc=exc,
                    items=cnf._vals[2:], F_after=C.lift(cnf._num_vars), nf_run=C.shadow(cnf._num_vars) - fsh,
                    fsh=fsh, frame_ok=frame_ok, callpre=self._callpre, relied=self._cur_relied,
                    args_after=to_terms(list(args)), shadows={n: shadows.get(n, i + 1) for i, (n, _) in enumerate(names)})

    # ------------------------------------------------------------------
    def verify(self, cname: str, shape) -> list[Verdict]:
        con = self.contracts[cname]
        oid = f"{cname}[{fmt_shape(shape)}]"
        out: list[Verdict] = []
        val = self.val
        ms = self.ms

        # ---- path exploration (DART) until the explored path conditions cover pre ----------
        paths, covered = [], []
        sh, fsh = {}, F_SHADOWS[0]
        status = None
        for _ in range(40):
            try:
                tr = self._run_once(con, shape, sh, fsh)
            except C.Unsupported as e:
                return [Verdict(oid + ".run", "undecided", detail=f"Unsupported: {e}")]
            paths.append(tr)
            self.stats["paths"] += 1
            covered.append(C.conj(tr["pc"]))
            pre = con.pre(tr["F"], tr["a"]) + [tr["F"] >= 0]
            st, m, dt, be_ = check_sat(pre + [z3.Not(c) for c in covered], ms)
            if st == "unsat":
                status = "proved"
                break
            if st == "unknown":
                status = "undecided"
                break
            sh = {n: model_int(m, t, 1) for n, t in tr["names"]}
            fsh = model_int(m, tr["F"], F_SHADOWS[0])
        out.append(Verdict(oid + ".path", status or "undecided", detail=f"{len(paths)} path(s)"))

        # ---- dual-shadow consistency (guard b): same path, other concrete ids -> identical terms ----
        tr0 = paths[0]
        pre = con.pre(tr0["F"], tr0["a"]) + [tr0["F"] >= 0]
        st, m, dt, be_ = check_sat(pre + tr0["pc"] + [tr0["F"] > F_SHADOWS[1]] +
                                   [t != tr0["shadows"][n] for n, t in tr0["names"]], ms)
        if st == "sat":
            try:
                tr2 = self._run_once(con, shape, {n: model_int(m, t, 1) for n, t in tr0["names"]}, model_int(m, tr0["F"]))
                same = _items_equal(tr0["items"], tr2["items"]) and z3.eq(z3.simplify(tr0["F_after"]), z3.simplify(tr2["F_after"]))
                out.append(Verdict(oid + ".shadow", "proved" if same else "undecided",
                                   detail=None if same else "terms differ between two shadow assignments on the same path (silent concretisation)"))
            except C.Unsupported as e:
                out.append(Verdict(oid + ".shadow", "undecided", detail=str(e)))
        else:
            out.append(Verdict(oid + ".shadow", "proved", detail="single shadow assignment possible"))

        relied = set()
        for pi, tr in enumerate(paths):
            p = oid if len(paths) == 1 else f"{oid}/path{pi}"
            F, a, pc = tr["F"], tr["a"], tr["pc"]
            hyp = con.pre(F, a) + [F >= 0] + pc
            relied |= tr["relied"]
            st, m, dt, be_ = check_sat(hyp, ms)
            if st != "sat":
                out.append(Verdict(p + ".reach", "undecided", dt, be_, "path precondition not satisfiable (vacuous)"))
                continue
            if tr["exc"] is not None:
                out.append(Verdict(p + ".raises", "refuted", detail=f"real code raised {type(tr['exc']).__name__}: {tr['exc']}",
                                   model=self._extract(m, tr)))
                continue
            nf = con.nfresh(shape) if con.nfresh is not None else tr["nf_run"]
            out.append(self._prove(p + ".fresh", hyp, tr["F_after"] == F + nf, tr))
            out.append(Verdict(p + ".frame", "proved" if tr["frame_ok"] else "refuted",
                               detail=None if tr["frame_ok"] else "pre-existing clauses were modified or moved", model="structure"))
            want = con.result(F, a, shape)
            got = tr["args_after"] if getattr(con, "result_is_args_after", False) else tr["res"]
            eqs = same_struct(got, want)
            if eqs is None:
                out.append(Verdict(p + ".result", "refuted", detail=f"result shape {_shape_str(got)} differs from declared {_shape_str(want)}", model="structure"))
                continue
            out.append(self._prove(p + ".result", hyp, C.conj(eqs), tr))
            for (cn, cshape, cpre) in tr["callpre"]:
                out.append(self._prove(f"{p}.callpre.{cn}[{fmt_shape(cshape)}]", hyp, C.conj(cpre), tr))
            # ---- Lemma DE side condition: every fresh id defined exactly once ---------------
            fshd = tr["fsh"]
            raw, segs = [], []
            for it in tr["items"]:
                (segs if isinstance(it, Segment) else raw).append(it)
            defined: dict[int, str] = {}
            problems = []
            for sg in segs:
                base = z3.simplify(sg.F - F)
                if not z3.is_int_value(base):
                    problems.append(f"segment {sg.contract.name} base is not F+const: {base}")
                    continue
                b0 = base.as_long()
                for j in range(b0 + 1, b0 + sg.contract.nfresh(sg.shape) + 1):
                    if j in defined:
                        problems.append(f"fresh F+{j} defined twice")
                    defined[j] = f"seg:{sg.contract.name}"
            groups: dict[int, list] = {}
            U = []
            for cl in raw:
                offs = [abs(C.shadow(v._val)) - fshd for v in cl._vals]
                top = max(offs) if offs else 0
                if top >= 1 and top not in defined:
                    groups.setdefault(top, []).append(cl)
                else:
                    U.append(cl)
            for j, cls in list(groups.items()):
                # a group with non-unit (defining) clauses: unit clauses on the same id are assertions
                if any(len(cl._vals) > 1 for cl in cls):
                    U += [cl for cl in cls if len(cl._vals) == 1]
                    groups[j] = [cl for cl in cls if len(cl._vals) > 1]
                defined[j] = "raw"
            missing = [j for j in range(1, nf + 1) if j not in defined]
            if missing:
                problems.append(f"fresh ids never defined (free variables): {['F+%d' % j for j in missing]}")
            extra = [j for j in defined if j > nf or j < 1]
            if extra:
                problems.append(f"definitions for ids outside the allocated fresh range: {extra}")
            seg_facts = []
            for sg in segs:
                seg_facts += sg.contract.facts(val, sg.F, sg.args_t, sg.res_t, sg.shape)
            raw_defs = []
            tdef = time.time()
            def_status, def_detail, def_model = "proved", None, None
            for j, cls in sorted(groups.items()):
                v = F + j
                side = []
                for cl in cls:
                    for lt in C.clause_terms(cl):
                        side.append(z3.Or(lt == v, -lt == v, z3.And(lt < v, -lt < v, lt != 0)))
                vT = lambda x, v=v: z3.If(x == v, z3.BoolVal(True), val(x))
                vF = lambda x, v=v: z3.If(x == v, z3.BoolVal(False), val(x))
                GT = C.conj(C.clause_sem(cl, vT) for cl in cls)
                GF = C.conj(C.clause_sem(cl, vF) for cl in cls)
                verdict, m2, dt2, be2 = prove(hyp, z3.And(C.conj(side), GT != GF), ms)
                if verdict != "proved" and def_status != "refuted":
                    def_status = verdict
                    def_detail = f"raw clauses on fresh F+{j} do not define it as a function of smaller ids"
                    def_model = self._extract(m2, tr) if m2 is not None else None
                raw_defs.append(C.conj(C.clause_sem(cl, val) for cl in cls))
            if problems:
                def_status, def_detail, def_model = "refuted", "; ".join(problems), "structure"
            out.append(Verdict(p + ".defs", def_status, time.time() - tdef, "z3", def_detail, def_model))
            # ---- postcondition ---------------------------------------------------------------
            base_h = hyp + seg_facts + raw_defs
            if con.defs is not None:
                if any(sg.contract.defs is None for sg in segs):
                    out.append(Verdict(p + ".post", "undecided", detail="leaf contract used a non-exact callee segment"))
                else:
                    added = C.conj([C.clause_sem(cl, val) for cl in raw] + seg_facts)
                    decl = C.conj(val(i) == D for (i, D) in con.defs(val, F, a, want, shape))
                    out.append(self._prove(p + ".post(added<=>defs)", hyp, added == decl, tr))
                    out.append(self._prove(p + ".post(defs=>facts)", hyp + [decl], C.conj(con.facts(val, F, a, want, shape)), tr))
            elif con.relation is None:
                if U:
                    out.append(Verdict(p + ".post", "refuted", model="structure",
                                       detail=f"{len(U)} clause(s) constrain input or already-defined variables in a pure circuit builder"))
                else:
                    out.append(self._prove(p + ".post", base_h, C.conj(con.facts(val, F, a, want, shape)), tr))
            else:
                Usem = C.conj(C.clause_sem(cl, val) for cl in U)
                out.append(self._prove(p + ".assert(U<=>relation)", base_h, Usem == con.relation(val, F, a, shape), tr))
        self.relied[(cname, shape)] = relied
        if all(v.status == "proved" for v in out):
            self.proved_shapes.add((cname, shape))
        return out

    def _prove(self, oid, hyp, goal, tr) -> Verdict:
        verdict, m, dt, be_ = prove(hyp, goal, self.ms)
        model = None
        if verdict == "refuted" and m is not None:
            model = self._extract(m, tr)
        return Verdict(oid, verdict, dt, be_, None, model)

    def _extract(self, m, tr):
        F = model_int(m, tr["F"])
        ids = {n: model_int(m, t) for n, t in tr["names"]}
        universe = set(abs(v) for v in ids.values())
        universe |= {F + j for j in range(1, max(tr["nf_run"], 0) + 1)}
        assign = {}
        for u in sorted(universe):
            if u != 0:
                assign[u] = bool(z3.is_true(m.eval(self.val(z3.IntVal(u)), model_completion=True)))
        return dict(F=F, ids=ids, assignment=assign)


def flat_vars(x):
    if isinstance(x, Var):
        return [x]
    if isinstance(x, (list, tuple)):
        return [v for e in x for v in flat_vars(e)]
    return []


def _items_equal(a, b):
    if len(a) != len(b):
        return False
    for x, y in zip(a, b):
        if isinstance(x, Segment) != isinstance(y, Segment):
            return False
        if isinstance(x, Segment):
            if x.contract is not y.contract or x.shape != y.shape or not z3.eq(z3.simplify(x.F), z3.simplify(y.F)):
                return False
            fa, fb = flat_terms(x.args_t), flat_terms(y.args_t)
            if len(fa) != len(fb) or any(not z3.eq(z3.simplify(p), z3.simplify(q)) for p, q in zip(fa, fb)):
                return False
        else:
            ta, tb = C.clause_terms(x), C.clause_terms(y)
            if len(ta) != len(tb) or any(not z3.eq(z3.simplify(p), z3.simplify(q)) for p, q in zip(ta, tb)):
                return False
    return True


def _shape_str(x):
    if x is None:
        return "None"
    if isinstance(x, (list, tuple)):
        return ("[" if isinstance(x, list) else "(") + ",".join(_shape_str(e) for e in x) + ("]" if isinstance(x, list) else ")")
    return "v"


def fmt_shape(shape):
    if isinstance(shape, tuple):
        return ",".join(str(s) for s in shape)
    return str(shape)
