"""SMT back end: z3 (python API) first, cvc5 (CLI on the SMT-LIB dump) when z3 says unknown."""
from __future__ import annotations

import os
import subprocess
import tempfile
import time

import z3

QUICK_MS = 10_000
THOROUGH_MS = 60_000


def budget_ms(tier: str) -> int:
    return THOROUGH_MS if tier == "thorough" else QUICK_MS


def _cvc5(smt2: str, ms: int):
    with tempfile.NamedTemporaryFile("w", suffix=".smt2", delete=False, dir=os.environ.get("VERIF_WORK", None)) as f:
        f.write("(set-logic ALL)\n" + smt2)
        path = f.name
    try:
        r = subprocess.run(["/usr/bin/cvc5", f"--tlimit={ms}", "--strings-exp", path],
                           capture_output=True, text=True, timeout=ms / 1000 + 5)
        out = r.stdout.strip().splitlines()
        return out[0] if out else "unknown"
    except Exception:
        return "unknown"
    finally:
        os.unlink(path)


def check_sat(assertions, ms: int = QUICK_MS, use_cvc5: bool = True, seed: int = 7, ematch_only: bool = False):
    """-> (status in {'sat','unsat','unknown'}, model or None, seconds, backend)"""
    s = z3.Solver()
    s.set("timeout", ms)
    s.set("random_seed", seed)
    if ematch_only:          # E-matching only (no model-based instantiation): fast and predictable on goals closed by pattern instances;
        s.set("smt.mbqi", False)          # it can only answer unsat or unknown here, a 'sat' under this setting is not trusted
        s.set("smt.auto_config", False)
    for a in assertions:
        s.add(a)
    t = time.time()
    r = s.check()
    dt = time.time() - t
    if r == z3.sat and ematch_only:
        return "unknown", None, dt, "z3"
    if r == z3.sat:
        return "sat", s.model(), dt, "z3"
    if r == z3.unsat:
        return "unsat", None, dt, "z3"
    if use_cvc5:
        t = time.time()
        r2 = _cvc5(s.to_smt2(), ms)
        dt2 = time.time() - t
        if r2 in ("sat", "unsat"):
            return r2, None, dt + dt2, "cvc5"
    return "unknown", None, dt, "z3"


def prove(hyps, goal, ms: int = QUICK_MS, use_cvc5: bool = True, seed: int = 7, ematch_only: bool = False):
    """validity of  hyps => goal.  -> (verdict in proved/refuted/undecided, model, secs, backend)"""
    st, m, dt, be = check_sat(list(hyps) + [z3.Not(goal)], ms, use_cvc5, seed, ematch_only)
    return {"unsat": "proved", "sat": "refuted", "unknown": "undecided"}[st], m, dt, be


def model_int(m, t, default=0):
    v = m.eval(t, model_completion=True)
    try:
        return v.as_long()
    except Exception:
        return default
