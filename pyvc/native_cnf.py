"""Native (concrete ids, pycryptosat) evaluation of the clause-builder contracts: replay of symbolic
counterexamples on the real code, and CPython cross-check of the concolic engine."""
from __future__ import annotations

import itertools

import pycryptosat

from sweetpea._internal.core.cnf import CNF, Var


def _solver(clauses):
    s = pycryptosat.Solver()
    for c in clauses:
        s.add_clause(c)
    return s


def models_under(clauses, assume, aux_ids, limit=3):
    """number of models (projected on aux_ids) of clauses under unit assumptions, up to limit"""
    s = _solver(clauses)
    for a in assume:
        s.add_clause([a])
    found = []
    while len(found) < limit:
        sat, m = s.solve()
        if not sat:
            break
        found.append({v: m[v] for v in aux_ids})
        if not aux_ids:
            break
        s.add_clause([(-v if m[v] else v) for v in aux_ids])
    return found


def run_builder(name, args_fn, F):
    cnf = CNF.from_fresh(F)
    args = args_fn()
    res = getattr(cnf, name)(*args)
    clauses = [[int(v) for v in cl] for cl in cnf._vals]
    return cnf, res, clauses, args


REL = {"assert_k_of_n": lambda c, k: c == k, "assert_k_less_than_n": lambda c, k: c < k,
       "assert_k_greater_than_n": lambda c, k: c > k}


def check_assert(name, k, ids, F, only_assignment=None):
    """-> None if the real encoding is exact (and uniquely extended) for these ids, else a dict describing the failure"""
    try:
        cnf, _, clauses, _ = run_builder(name, lambda: [k, [Var(i) for i in ids]], F)
    except Exception as e:
        return dict(kind="raises", exception=repr(e), k=k, ids=list(ids), F=F)
    used = {abs(l) for c in clauses for l in c}
    aux = sorted(range(F + 1, cnf._num_vars + 1))
    free = [v for v in aux if v not in used]
    if free:
        return dict(kind="free-aux", free=free, k=k, ids=list(ids), F=F)
    space = [only_assignment] if only_assignment is not None else itertools.product([False, True], repeat=len(ids))
    for bits in space:
        assume = [i if bt else -i for i, bt in zip(ids, bits)]
        ms = models_under(clauses, assume, aux, limit=2)
        want = REL[name](sum(bits), k)
        if bool(ms) != want:
            return dict(kind="inexact", k=k, ids=list(ids), F=F, assignment=dict(zip(ids, bits)), count=sum(bits),
                        satisfiable=bool(ms), expected=want)
        if want and len(ms) != 1:
            return dict(kind="non-unique", k=k, ids=list(ids), F=F, assignment=dict(zip(ids, bits)), extensions=len(ms))
    return None


def _val(bits_msb_first):
    v = 0
    for x in bits_msb_first:
        v = 2 * v + (1 if x else 0)
    return v


def check_circuit(name, shape, ids_lists, F, extra=()):
    """Circuit builders: for every input assignment exactly one extension, outputs = documented sum.
    ids_lists: list of id lists (the Var-list arguments), extra: trailing non-Var args."""
    def args():
        out = []
        for lst in ids_lists:
            out.append([Var(i) for i in lst] if isinstance(lst, list) else (None if lst is None else Var(lst)))
        return out + list(extra)
    try:
        cnf, res, clauses, args_after = run_builder(name, args, F)
    except Exception as e:
        return dict(kind="raises", exception=repr(e), shape=shape, F=F)
    inputs = []
    for lst in ids_lists:
        inputs += lst if isinstance(lst, list) else ([] if lst is None else [lst])
    in_ids = sorted({abs(i) for i in inputs})
    aux = list(range(F + 1, cnf._num_vars + 1))
    used = {abs(l) for c in clauses for l in c}
    free = [v for v in aux if v not in used]
    if free:
        return dict(kind="free-aux", free=free, shape=shape, F=F)
    for bits in itertools.product([False, True], repeat=len(in_ids)):
        asg = dict(zip(in_ids, bits))
        assume = [i if asg[i] else -i for i in in_ids]
        ms = models_under(clauses, assume, aux, limit=2)
        if len(ms) != 1:
            return dict(kind="extensions", n=len(ms), shape=shape, F=F, assignment=asg)
        full = dict(asg)
        full.update(ms[0])
        lv = lambda l: full[abs(int(l))] if int(l) > 0 else not full[abs(int(l))]
        A = [[lv(i) for i in lst] if isinstance(lst, list) else (None if lst is None else lv(lst)) for lst in ids_lists]
        try:
            bad = _circuit_post(name, shape, A, res, lv, extra, args_after)
        except Exception as e:       # e.g. a None where a variable is documented
            bad = f"result not of the documented form: {e!r}"
        if bad:
            return dict(kind="wrong-output", why=bad, shape=shape, F=F, assignment=asg)
    return None


def _circuit_post(name, shape, A, res, lv, extra, args_after):
    if name == "half_adder" or (name == "full_adder"):
        a, b = A[0], A[1]
        c = A[2] if len(A) > 2 and A[2] is not None else False
        cout, s = lv(res[0]), lv(res[1])
        return None if 2 * cout + s == a + b + c else f"2*{cout}+{s} != {a}+{b}+{c}"
    if name == "saturate_adder":
        c = A[2] if len(A) > 2 and A[2] is not None else False
        return None if lv(res) == (A[0] or A[1] or c) else "s != a|b|cin"
    if name == "ripple_carry":
        Lw = len(A[0])
        got = sum((1 << i) for i, s in enumerate(res[1]) if lv(s)) + (lv(res[0]) << Lw)
        return None if got == _val(A[0]) + _val(A[1]) else f"{got} != {_val(A[0])}+{_val(A[1])}"
    if name == "ripple_saturate":
        Lw, sat = len(A[0]), extra[0]
        X, Y, R = _val(A[0]), _val(A[1]), _val([lv(r) for r in res])
        if len(res) != (Lw + 1 if Lw < sat else sat):
            return "length"
        if Lw < sat:
            return None if R == X + Y else f"{R} != {X}+{Y}"
        top = 1 << (Lw - 1)
        ok = (R == X + Y) if X + Y < top else (R >= top and (R - (X + Y)) % top == 0)
        return None if ok else f"saturating sum wrong: R={R} X={X} Y={Y} top={top}"
    if name == "pop_count":
        sat = extra[0]
        cnt, R = sum(A[0]), _val([lv(r) for r in res])
        if sat == 0 or len(res) < sat or len(A[0]) == 1:
            return None if R == cnt else f"{R} != count {cnt}"
        top = 1 << (sat - 1)
        ok = (R == cnt) if cnt < top else R >= top
        return None if ok else f"saturating count wrong: R={R} cnt={cnt} top={top}"
    if name == "_convert_to_negative_twos_complement":
        Lw = len(A[0])
        X, R = _val(A[0]), _val([lv(r) for r in res])
        return None if R == ((-X) % (1 << Lw)) else f"{R} != -{X} mod 2^{Lw}"
    if name == "_make_same_length":
        xs, ys = args_after[0], args_after[1]
        if len(xs) != len(ys):
            return "lengths differ"
        if _val([lv(v) for v in xs]) != _val(A[0]) or _val([lv(v) for v in ys]) != _val(A[1]):
            return "value changed"
        return None
    return "no native postcondition"
