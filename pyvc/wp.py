"""pyvc.wp — verification-condition generator for a subset of Python, run on the real source of /repo.

On every run the function named by a contract is located in the *current* source file, re-parsed
with `ast`, and executed symbolically (forward, path by path).  Obligations generated:

  post        every `ensures` clause at every normal return
  raises      a `raise` is reachable only under its declared condition
  inv.init / inv.preserve   loop invariants (loops are keyed by ordinal in the function)
  decreases   termination measure of every loop (for-loops: automatic)
  callpre     precondition of every callee that has a contract (calls are modular: assert pre,
              havoc result, assume post — the callee body is never inlined)
  safety      subscript in bounds, divisor != 0, assert statements

What the extraction drops (DESIGN 2.2): decorators, type annotations, typing.cast(T, e) -> e,
docstrings, print(...) calls.  Anything else outside the subset raises OutOfSubset and the whole
function is reported *undecided*, never approximated.

Encoding assumptions: Python ints are mathematical integers (exact); // and % are floor division
(axiomatised through fresh quotient/remainder, sign of the divisor respected); lists are values
(array, length) — aliasing between two list variables is not modelled, so a function that mutates
a list which is also reachable under another name is out of subset (checked: a `for` loop over a
name assigned in its own body is rejected; list parameters are assumed not aliased).
"""
from __future__ import annotations

import ast
import importlib
import inspect
import itertools
import textwrap
import time
from dataclasses import dataclass, field

import z3

from .smt import prove, check_sat


class OutOfSubset(Exception):
    pass


# --------------------------------------------------------------------------- sorts and values
Obj = z3.DeclareSort("Obj")
IntList = z3.Datatype("IntList")
IntList.declare("mk", ("arr", z3.ArraySort(z3.IntSort(), z3.IntSort())), ("n", z3.IntSort()))
IntList = IntList.create()
ObjList = z3.Datatype("ObjList")
ObjList.declare("mk", ("arr", z3.ArraySort(z3.IntSort(), Obj)), ("n", z3.IntSort()))
ObjList = ObjList.create()
SumF = z3.Function("Sum", z3.ArraySort(z3.IntSort(), z3.IntSort()), z3.IntSort(), z3.IntSort())
Pow2 = z3.Function("pow2", z3.IntSort(), z3.IntSort())
NONE_INT = z3.Int("NONE_as_int")
NONE_OBJ = z3.Const("NONE_obj", Obj)

_fresh = itertools.count()


_fresh_last = [-1]


def fresh(prefix, sort):
    _fresh_last[0] = next(_fresh)
    return z3.Const(f"{prefix}!{_fresh_last[0]}", sort)


def _fresh_mark():
    return _fresh_last[0]


@dataclass
class IntV:
    t: object


@dataclass
class BoolV:
    t: object


@dataclass
class NoneV:
    pass


@dataclass
class ObjV:
    t: object                      # Obj-sorted term
    fields: dict = field(default_factory=dict)   # name -> value (declared structure)
    maybe_none: bool = False


@dataclass
class ListV:
    arr: object
    n: object
    elem: str                      # 'int' | 'obj' | 'list[int]' | 'bool'


@dataclass
class TupleV:
    items: list


@dataclass
class OptV:
    """Optional[int]: `none` (z3 Bool) says the value is None, otherwise `v` (z3 Int) is the integer"""
    none: object
    v: object


@dataclass
class DictV:
    """dict with keys of one kind ('obj' | 'int'); `has` : Array(K, Bool); values either scalars (`val` : Array(K, V)) or lists
    (`varr` : Array(K, Array(Int, E)), `vlen` : Array(K, Int)).  Iteration order is not modelled (iterating a dict is out of subset)."""
    key: str
    vt: str                        # 'int' | 'obj' | 'bool' | 'list[int]' | 'list[obj]'
    has: object
    val: object = None
    varr: object = None
    vlen: object = None


@dataclass
class FuncV:
    kind: str                      # 'uf' | 'closure' | 'contract'
    data: object = None


ELEM_SORT = {"int": z3.IntSort(), "obj": Obj, "list[int]": IntList, "bool": z3.BoolSort(), "list[obj]": ObjList}


def mk_list(prefix, elem):
    return ListV(fresh(prefix, z3.ArraySort(z3.IntSort(), ELEM_SORT[elem])), fresh(prefix + "_len", z3.IntSort()), elem)


def elem_value(lst: ListV, term):
    if lst.elem == "int":
        return IntV(term)
    if lst.elem == "bool":
        return BoolV(term)
    if lst.elem == "obj":
        return ObjV(term)
    if lst.elem == "list[obj]":
        return ListV(ObjList.arr(term), z3.If(ObjList.n(term) >= 0, ObjList.n(term), 0), "obj")
    return ListV(IntList.arr(term), IntList.n(term), "int")


def elem_term(lst_elem: str, v):
    if lst_elem == "int":
        if isinstance(v, NoneV):
            return NONE_INT
        if isinstance(v, IntV):
            return v.t
        if isinstance(v, OptV):
            return v.v
    if lst_elem == "bool" and isinstance(v, BoolV):
        return v.t
    if lst_elem == "obj":
        if isinstance(v, ObjV):
            return v.t
        if isinstance(v, NoneV):
            return NONE_OBJ
        if isinstance(v, DictV) and v.key == "int" and v.vt == "obj" and getattr(v, "box", None) is not None:
            return v.box
    if lst_elem == "list[int]" and isinstance(v, ListV) and v.elem == "int":
        return IntList.mk(v.arr, v.n)
    if lst_elem == "list[obj]" and isinstance(v, ListV) and v.elem == "obj":
        return ObjList.mk(v.arr, v.n)
    raise OutOfSubset(f"cannot store {type(v).__name__} in list[{lst_elem}]")


PairOI = z3.Datatype("PairOI")
PairOI.declare("mk", ("o", Obj), ("i", z3.IntSort()))
PairOI = PairOI.create()
ELEM_SORT["pair"] = PairOI            # dict keys of the form (object, int)
DO_HAS = z3.Function("dictobj.okey.has", Obj, Obj, z3.BoolSort())             # a dict {object: list of objects} held as an opaque object
DO_ARR = z3.Function("dictobj.okey.arr", Obj, Obj, z3.ArraySort(z3.IntSort(), Obj))
DO_LEN = z3.Function("dictobj.okey.len", Obj, Obj, z3.IntSort())
DV_HAS = z3.Function("dictobj.oval.has", Obj, Obj, z3.BoolSort())             # a dict {object: object} held as an opaque object
DV_VAL = z3.Function("dictobj.oval.val", Obj, Obj, Obj)
DICTZIP = z3.Function("dict.zip", z3.ArraySort(z3.IntSort(), Obj), z3.IntSort(), Obj, Obj)
TUP_LEN = z3.Function("tuple.len", Obj, z3.IntSort())
DK_HAS = z3.Function("dictobj.has", Obj, z3.IntSort(), z3.BoolSort())
DK_VAL = z3.Function("dictobj.val", Obj, z3.IntSort(), Obj)


def elem_kind_of(v):
    if isinstance(v, DictV) and v.key == "int" and v.vt == "obj":
        return "obj"            # a small int-keyed dict stored in a list: boxed into an opaque object with accessor functions
    if isinstance(v, (IntV, NoneV)):
        return "int"
    if isinstance(v, BoolV):
        return "bool"
    if isinstance(v, ObjV):
        return "obj"
    if isinstance(v, ListV) and v.elem == "int":
        return "list[int]"
    if isinstance(v, ListV) and v.elem == "obj":
        return "list[obj]"
    raise OutOfSubset(f"unsupported list element {type(v).__name__}")


# --------------------------------------------------------------------------- state
class State:
    def __init__(self):
        self.env: dict = {}
        self.pc: list = []
        self.old: dict = {}
        self.path: str = ""

    def clone(self):
        s = State()
        s.env = dict(self.env)
        s.pc = list(self.pc)
        s.old = self.old
        s.path = self.path
        return s


@dataclass
class VC:
    oid: str
    kind: str
    hyps: list
    goal: object
    path: str
    note: str = ""
    status: str = ""
    secs: float = 0.0
    backend: str = ""
    model: object = None


# --------------------------------------------------------------------------- the executor
class Executor:
    def __init__(self, contract: dict, all_contracts: dict, source: str, fn_node: ast.FunctionDef, fn_globals: dict):
        self.c = contract
        self.all = all_contracts
        self.src = source
        self.fn = fn_node
        self.globals = fn_globals
        self.vcs: list[VC] = []
        self.loop_ordinal = itertools.count()
        self.loop_ids: dict[int, int] = {}
        self.ufs: dict[str, object] = {}
        self.consts: dict[str, object] = {}
        self.dropped: set = set()
        self.def_ids: set = set()
        self.divmods: dict = {}
        self.hint_ids: set = set()
        self._keep: list = []
        self.partial_loops: list = []
        self._binders: list = []
        self._number_loops(fn_node)
        # call sites of one callee in source order: a contract may be attached to one site with the key "<callee>#<ordinal>"
        self.call_ord = {}
        seen_calls = {}
        for c_ in sorted((n for n in ast.walk(fn_node) if isinstance(n, ast.Call)), key=lambda n: (n.lineno, n.col_offset)):
            t_ = ast.unparse(c_.func)
            self.call_ord[id(c_)] = seen_calls.get(t_, 0)
            seen_calls[t_] = seen_calls.get(t_, 0) + 1
        self.ret_ids = {}
        for n_, r_ in enumerate(sorted((n for n in ast.walk(fn_node) if isinstance(n, ast.Return)), key=lambda n: (n.lineno, n.col_offset))):
            self.ret_ids[id(r_)] = n_

    def _number_loops(self, node):
        k = 0
        for n in ast.walk(node):
            pass
        # ordinal = order of appearance in source (pre-order)
        def visit(n):
            nonlocal k
            for ch in ast.iter_child_nodes(n):
                if isinstance(ch, (ast.While, ast.For)):
                    self.loop_ids[id(ch)] = k
                    k += 1
                visit(ch)
        visit(node)
        self.n_loops = k

    # ---- VC helper ----------------------------------------------------------------------
    def define(self, st: State, fact):
        """append a definitional fact about fresh symbols (always satisfiable: conservative extension)"""
        st.pc.append(fact)
        self._keep.append(fact)          # keep the AST alive: z3 recycles ids of freed terms
        self.def_ids.add(fact.get_id())

    def carry_defs(self, frm: State, to: State):
        have = {f.get_id() for f in to.pc}
        for f in frm.pc:
            if f.get_id() in self.def_ids and f.get_id() not in have:
                to.pc.append(f)

    def vc(self, st: State, kind: str, name: str, goal, note=""):
        self.vcs.append(VC(f"{self.c['id']}.{name}", kind, list(st.pc), goal, st.path, note))

    # ---- type helpers ---------------------------------------------------------------------
    def make_param(self, name, ty):
        """ty: 'int' | 'bool' | 'list[int]' | 'list[obj]' | 'list[list[int]]' | 'obj' | 'opt[obj{f:int,...}]' | 'obj{...}' | 'fn(int,int)->int' ..."""
        ty = ty.strip()
        if ty == "int":
            return IntV(z3.Int(name))
        if ty == "bool":
            return BoolV(z3.Bool(name))
        if ty == "none":
            return NoneV()
        if ty == "opt[int]":
            return OptV(z3.Bool(name + "_is_none"), z3.Int(name))
        if ty.startswith("tuple["):
            return TupleV([self.make_param(f"{name}.{i}", t) for i, t in enumerate(_split_top(ty[6:-1]))])
        if ty.startswith("list["):
            inner = ty[5:-1]
            ek = {"int": "int", "obj": "obj", "bool": "bool", "list[int]": "list[int]", "list[obj]": "list[obj]"}.get(inner)
            if ek is None:
                raise OutOfSubset(f"type {ty}")
            return ListV(z3.Const(name, z3.ArraySort(z3.IntSort(), ELEM_SORT[ek])), z3.Int(name + "_len"), ek)
        if ty.startswith("dict["):
            kt, vt = [x.strip() for x in _split_top(ty[5:-1])]
            if kt not in ("obj", "int", "pair") or vt not in ("int", "obj", "bool", "list[int]", "list[obj]"):
                raise OutOfSubset(f"type {ty}")
            return self.mk_dict(name, kt, vt)
        if ty.startswith("opt[") or ty.startswith("obj"):
            opt = ty.startswith("opt[")
            inner = ty[4:-1] if opt else ty
            fields = {}
            if "{" in inner:
                body = inner[inner.index("{") + 1: inner.rindex("}")]
                for part in _split_top(body):
                    fname, fty = part.split(":", 1)
                    fields[fname.strip()] = self.make_param(f"{name}.{fname.strip()}", fty.strip())
            return ObjV(z3.Const(name, Obj), fields, maybe_none=opt)
        if ty.startswith("fn("):
            args, res = ty[3:].split(")->")
            sorts = [ELEM_SORT[a.strip()] for a in args.split(",") if a.strip()]
            rs = res.strip()
            f = z3.Function(name, *sorts, ELEM_SORT[rs])
            return FuncV("uf", (f, rs))
        raise OutOfSubset(f"type {ty}")

    def mk_dict(self, name, kt, vt, fresh_names=False):
        K = ELEM_SORT[kt]
        mk = (lambda n_, srt: fresh(n_, srt)) if fresh_names else (lambda n_, srt: z3.Const(n_, srt))
        d = DictV(kt, vt, mk(name + "_has", z3.ArraySort(K, z3.BoolSort())))
        if vt.startswith("list["):
            E = ELEM_SORT[vt[5:-1]]
            d.varr = mk(name + "_varr", z3.ArraySort(K, z3.ArraySort(z3.IntSort(), E)))
            d.vlen = mk(name + "_vlen", z3.ArraySort(K, z3.IntSort()))
        else:
            d.val = mk(name + "_val", z3.ArraySort(K, ELEM_SORT[vt]))
        return d

    def box_dict(self, d: DictV, st):
        """an int-keyed dict of opaque values as ONE opaque object o with  dictobj.has(o,k) == (k in d)  and  dictobj.val(o,k) == d[k]"""
        if not (d.key == "int" and d.vt == "obj"):
            raise OutOfSubset("only dict[int,obj] values can be stored in lists / returned as objects")
        if getattr(d, "box", None) is None:
            o = fresh("dictobj", Obj)
            k = fresh("k", z3.IntSort())
            self.define(st, z3.ForAll([k], z3.And(DK_HAS(o, k) == z3.Select(d.has, k), DK_VAL(o, k) == z3.Select(d.val, k)), patterns=[DK_HAS(o, k), DK_VAL(o, k)]))
            d = DictV(d.key, d.vt, d.has, d.val)
            d.box = o
        return d

    def dict_get(self, d: DictV, key_term):
        if d.vt.startswith("list["):
            n = z3.Select(d.vlen, key_term)
            return ListV(z3.Select(d.varr, key_term), z3.If(n >= 0, n, 0), d.vt[5:-1])     # a stored list has a non-negative length
        t = z3.Select(d.val, key_term)
        return {"int": IntV, "obj": ObjV, "bool": BoolV}[d.vt](t)

    def attr_of(self, base: ObjV, attr: str, st):
        """attribute of an opaque object by declared type (contract key `attrs`): an uninterpreted function of the object.
        Sound because the subset has no attribute stores (an assignment to an attribute is rejected)."""
        ty = self.c.get("attrs", {}).get(attr)
        if ty is None:
            return None
        if ty.startswith("list["):
            ek = ty[5:-1]
            fa = z3.Function("attr:" + attr + ".arr", Obj, z3.ArraySort(z3.IntSort(), ELEM_SORT[ek]))
            fl = z3.Function("attr:" + attr + ".len", Obj, z3.IntSort())
            n = fl(base.t)
            return ListV(fa(base.t), z3.If(n >= 0, n, 0), ek)
        f = z3.Function("attr:" + attr, Obj, ELEM_SORT[ty])
        return {"int": IntV, "obj": ObjV, "bool": BoolV}[ty](f(base.t))

    # ---- expression evaluation -------------------------------------------------------------
    def truth(self, v, st):
        if isinstance(v, BoolV):
            return v.t
        if isinstance(v, IntV):
            return v.t != 0
        if isinstance(v, NoneV):
            return z3.BoolVal(False)
        if isinstance(v, ListV):
            return v.n > 0
        if isinstance(v, ObjV):
            return (v.t != NONE_OBJ) if v.maybe_none else z3.BoolVal(True)
        if isinstance(v, TupleV):
            return z3.BoolVal(len(v.items) > 0)
        if isinstance(v, OptV):
            return z3.Not(v.none)          # a wrapped object (e.g. Var) is truthy, None is not
        raise OutOfSubset(f"truthiness of {type(v).__name__}")

    def key_term(self, d: DictV, k):
        if d.key == "int":
            return self.as_int(k)
        if d.key == "pair":
            if isinstance(k, TupleV) and len(k.items) == 2 and isinstance(k.items[0], ObjV):
                return PairOI.mk(k.items[0].t, self.as_int(k.items[1]))
            raise OutOfSubset("dict key is not an (object, int) pair")
        if isinstance(k, ObjV):
            return k.t
        raise OutOfSubset(f"dict key of kind {type(k).__name__}")

    def eq(self, a, b, st):
        if isinstance(a, OptV) or isinstance(b, OptV):
            o, x = (a, b) if isinstance(a, OptV) else (b, a)
            if isinstance(x, NoneV):
                return o.none
            if isinstance(x, OptV):
                return z3.And(o.none == x.none, z3.Implies(z3.Not(o.none), o.v == x.v))
            if isinstance(x, (IntV, BoolV)):
                return z3.And(z3.Not(o.none), o.v == self.as_int(x))
            return z3.BoolVal(False)
        if isinstance(a, NoneV) or isinstance(b, NoneV):
            o = b if isinstance(a, NoneV) else a
            if isinstance(o, NoneV):
                return z3.BoolVal(True)
            if isinstance(o, ObjV):
                return (o.t == NONE_OBJ) if o.maybe_none else z3.BoolVal(False)
            if isinstance(o, IntV):
                return o.t == NONE_INT if False else z3.BoolVal(False)
            return z3.BoolVal(False)
        if isinstance(a, IntV) and isinstance(b, IntV):
            return a.t == b.t
        if isinstance(a, BoolV) and isinstance(b, BoolV):
            return a.t == b.t
        if isinstance(a, (IntV, BoolV)) and isinstance(b, (IntV, BoolV)):
            ai = a.t if isinstance(a, IntV) else z3.If(a.t, 1, 0)
            bi = b.t if isinstance(b, IntV) else z3.If(b.t, 1, 0)
            return ai == bi
        if isinstance(a, ObjV) and isinstance(b, ObjV):
            return a.t == b.t
        if isinstance(a, ListV) and isinstance(b, ListV):
            if a.elem != b.elem:
                raise OutOfSubset("comparison of lists with different element kinds")
            j = fresh("j", z3.IntSort())
            return z3.And(a.n == b.n, z3.ForAll([j], z3.Implies(z3.And(0 <= j, j < a.n), a.arr[j] == b.arr[j])))
        if isinstance(a, TupleV) and isinstance(b, TupleV):
            if len(a.items) != len(b.items):
                return z3.BoolVal(False)
            return z3.And(*[self.eq(x, y, st) for x, y in zip(a.items, b.items)]) if a.items else z3.BoolVal(True)
        raise OutOfSubset(f"== between {type(a).__name__} and {type(b).__name__}")

    def as_int(self, v):
        if isinstance(v, IntV):
            return v.t
        if isinstance(v, BoolV):
            return z3.If(v.t, 1, 0)
        if isinstance(v, OptV):
            return v.v                      # only meaningful where the contract has established `not is_none`
        raise OutOfSubset(f"expected int, got {type(v).__name__}")

    def divmod_(self, a, b, st, what, spec=False):
        if not spec:
            self.vc(st, "safety", f"safety.div#{what}", b != 0, "divisor != 0")
        if self._binders and (_mentions(a, self._binders) or _mentions(b, self._binders)):
            # under a binder the quotient is a function of the bound variable: use SMT div/mod directly
            # (Python floor semantics: for b > 0 they coincide with SMT-LIB div/mod; for b < 0 negate both operands)
            q = z3.If(b > 0, a / b, (-a) / (-b))
            return q, a - b * q
        key = (z3.simplify(a).sexpr(), z3.simplify(b).sexpr())      # t-1-s and t-(s+1) are the same dividend (text keys: AST ids are recycled once a term is freed)
        if key in self.divmods:          # one quotient/remainder pair per (dividend, divisor) term: n % s and n // s share it
            q, r, fact = self.divmods[key]
            if not any(f.get_id() == fact.get_id() for f in st.pc):
                st.pc.append(fact)
            return q, r
        q, r = fresh("q", z3.IntSort()), fresh("r", z3.IntSort())
        self.divmods[key] = (q, r, None)
        self.define(st, z3.Implies(b != 0, z3.And(a == b * q + r, z3.Implies(b > 0, z3.And(0 <= r, r < b)), z3.Implies(b < 0, z3.And(b < r, r <= 0)))))
        self.divmods[key] = (q, r, st.pc[-1])
        return q, r

    def const_obj(self, text):
        if text not in self.consts:
            self.consts[text] = z3.Const("const:" + text, Obj)
        return self.consts[text]

    def ev(self, node, st: State, spec=False):
        """evaluate an expression; spec=True allows the specification vocabulary"""
        sf = self.c.get("self_fields")
        if sf and not isinstance(node, (ast.Constant, ast.Name)):
            text = ast.unparse(node)
            if text in sf:
                return st.env["§" + text]
        oq = self.c.get("opaque")
        if oq and not spec and not isinstance(node, (ast.Constant, ast.Name)):
            text = ast.unparse(node)
            if text in oq:
                # an expression abstracted to a specification term over named variables (a deterministic, side-effect free expression is SOME function
                # of the variables it reads; the proof then holds for every such function)
                self.dropped.add(f"expression `{text}` abstracted to `{oq[text]}`")
                return self.ev(_parse(oq[text]), st, True)
        m = getattr(self, "ev_" + type(node).__name__, None)
        if m is None:
            raise OutOfSubset(f"expression {type(node).__name__}: {ast.unparse(node)[:60]}")
        return m(node, st, spec)

    def ev_Constant(self, node, st, spec):
        v = node.value
        if isinstance(v, bool):
            return BoolV(z3.BoolVal(v))
        if isinstance(v, int):
            return IntV(z3.IntVal(v))
        if v is None:
            return NoneV()
        if isinstance(v, str):
            return ObjV(self.const_obj(repr(v)))
        raise OutOfSubset(f"constant {v!r}")

    def ev_Name(self, node, st, spec):
        if node.id in st.env:
            return st.env[node.id]
        if spec and node.id == "result":
            raise OutOfSubset("result used before return")
        if spec and node.id not in self.globals and node.id not in getattr(self, "local_imports", ()) and node.id not in self.c.get("consts", ()):
            raise OutOfSubset(f"unknown name in specification: {node.id}")
        if node.id in self.globals or spec or node.id in getattr(self, "local_imports", ()):
            return ObjV(self.const_obj(node.id))     # module-level constant / class: opaque, named by its text
        raise OutOfSubset(f"unbound name {node.id}")

    def ev_Attribute(self, node, st, spec):
        text = ast.unparse(node)
        sf = self.c.get("self_fields", {})
        if text in sf:
            return st.env["§" + text]
        if text in self.c.get("self_state", {}):
            return st.env[self.c["self_state"][text][0]]          # attribute of self that the function may assign: a symbol of the state
        base = self.ev(node.value, st, spec)
        if isinstance(base, (IntV, OptV)) and node.attr in self.c.get("identity_attrs", ()):
            return base                      # e.g. Var.value: the wrapped integer itself
        if isinstance(base, ObjV) and node.attr in base.fields:
            return base.fields[node.attr]
        if isinstance(base, ObjV) and not (isinstance(node.value, ast.Name) and node.value.id not in st.env):
            r = self.attr_of(base, node.attr, st)
            if r is not None:
                return r
        if isinstance(base, ObjV) and not base.fields and isinstance(node.value, (ast.Name, ast.Attribute)) and ast.unparse(node.value) not in st.env:
            return ObjV(self.const_obj(text))     # Enum member / module attribute
        raise OutOfSubset(f"attribute {text}")

    def ev_UnaryOp(self, node, st, spec):
        v = self.ev(node.operand, st, spec)
        if isinstance(node.op, ast.USub):
            return IntV(-self.as_int(v))
        if isinstance(node.op, ast.UAdd):
            return IntV(self.as_int(v))
        if isinstance(node.op, ast.Not):
            return BoolV(z3.Not(self.truth(v, st)))
        if isinstance(node.op, ast.Invert) and self.c.get("invert_is_neg") and isinstance(v, IntV):
            # `~x` on a Var modelled by its integer id (identity_calls): Var.__invert__ returns Var(-value), NOT Python's integer complement
            self.dropped.add("Var.__invert__ modelled as negation of the id (cnf.py: `return Var(-self._val)`)")
            return IntV(-v.t)
        raise OutOfSubset("unary op")

    def ev_BinOp(self, node, st, spec):
        a, b = self.ev(node.left, st, spec), self.ev(node.right, st, spec)
        op = node.op
        if isinstance(a, ListV) and isinstance(b, ListV) and isinstance(op, ast.Add):
            return self.concat(a, b, st)
        if isinstance(a, ListV) and isinstance(op, ast.Mult) or isinstance(b, ListV) and isinstance(op, ast.Mult):
            lst, k = (a, b) if isinstance(a, ListV) else (b, a)
            return self.repeat(lst, self.as_int(k), st)
        if isinstance(a, ObjV) and isinstance(b, ObjV) and isinstance(op, ast.Add) and "obj.__add__" in self.c.get("uses", {}):
            return self.call_contract(self.c["uses"]["obj.__add__"], [node.left, node.right], st, "obj.__add__")
        x, y = self.as_int(a), self.as_int(b)
        if isinstance(op, ast.Add):
            return IntV(x + y)
        if isinstance(op, ast.Sub):
            return IntV(x - y)
        if isinstance(op, ast.Mult):
            return IntV(x * y)
        if isinstance(op, ast.FloorDiv):
            return IntV(self.divmod_(x, y, st, ast.unparse(node)[:40], spec)[0])
        if isinstance(op, ast.Mod):
            return IntV(self.divmod_(x, y, st, ast.unparse(node)[:40], spec)[1])
        if isinstance(op, ast.Pow) and spec and z3.is_int_value(x) and x.as_long() == 2:
            return IntV(Pow2(y))
        raise OutOfSubset(f"binary op {type(op).__name__}")

    def ev_BoolOp(self, node, st, spec):
        # short circuit: later operands are evaluated (for their safety VCs) under the guard of the earlier ones
        terms = []
        cur = st
        for sub in node.values:
            v = self.ev(sub, cur, spec)
            terms.append(self.truth(v, cur))
            nxt = cur.clone()
            nxt.pc.append(terms[-1] if isinstance(node.op, ast.And) else z3.Not(terms[-1]))
            if cur is not st:
                self.carry_defs(cur, st)
            cur = nxt
        self.carry_defs(cur, st)
        return BoolV(z3.And(*terms) if isinstance(node.op, ast.And) else z3.Or(*terms))

    def ev_Compare(self, node, st, spec):
        left = self.ev(node.left, st, spec)
        out = []
        for op, rn in zip(node.ops, node.comparators):
            right = self.ev(rn, st, spec)
            if isinstance(op, (ast.Eq, ast.Is)):
                out.append(self.eq(left, right, st))
            elif isinstance(op, (ast.NotEq, ast.IsNot)):
                out.append(z3.Not(self.eq(left, right, st)))
            elif isinstance(op, (ast.Lt, ast.LtE, ast.Gt, ast.GtE)):
                x, y = self.as_int(left), self.as_int(right)
                out.append({ast.Lt: x < y, ast.LtE: x <= y, ast.Gt: x > y, ast.GtE: x >= y}[type(op)])
            elif isinstance(op, (ast.In, ast.NotIn)) and isinstance(right, ObjV) and self.c.get("boxed_dicts"):
                t = DO_HAS(right.t, left.t) if isinstance(left, ObjV) else DK_HAS(right.t, self.as_int(left))
                out.append(t if isinstance(op, ast.In) else z3.Not(t))
            elif isinstance(op, (ast.In, ast.NotIn)) and isinstance(right, DictV):
                t = z3.Select(right.has, self.key_term(right, left))
                out.append(t if isinstance(op, ast.In) else z3.Not(t))
            elif isinstance(op, (ast.In, ast.NotIn)) and isinstance(right, ListV):
                j = fresh("j", z3.IntSort())
                t = z3.Exists([j], z3.And(0 <= j, j < right.n, right.arr[j] == elem_term(right.elem, left)))
                out.append(t if isinstance(op, ast.In) else z3.Not(t))
            else:
                raise OutOfSubset(f"comparison {type(op).__name__}")
            left = right
        return BoolV(z3.And(*out) if len(out) > 1 else out[0])

    def ev_IfExp(self, node, st, spec):
        c = self.truth(self.ev(node.test, st, spec), st)
        s1, s2 = st.clone(), st.clone()
        s1.pc.append(c)
        s2.pc.append(z3.Not(c))
        a, b = self.ev(node.body, s1, spec), self.ev(node.orelse, s2, spec)
        self.carry_defs(s1, st)
        self.carry_defs(s2, st)
        return self.ite(c, a, b)

    def ite(self, c, a, b):
        if isinstance(a, IntV) and isinstance(b, IntV):
            return IntV(z3.If(c, a.t, b.t))
        if isinstance(a, BoolV) and isinstance(b, BoolV):
            return BoolV(z3.If(c, a.t, b.t))
        if isinstance(a, ListV) and isinstance(b, ListV) and a.elem == b.elem:
            return ListV(z3.If(c, a.arr, b.arr), z3.If(c, a.n, b.n), a.elem)
        if isinstance(a, ObjV) and isinstance(b, ObjV):
            return ObjV(z3.If(c, a.t, b.t))
        if isinstance(a, (OptV, NoneV, IntV)) and isinstance(b, (OptV, NoneV, IntV)):
            oa, ob = self.as_opt(a), self.as_opt(b)
            return OptV(z3.If(c, oa.none, ob.none), z3.If(c, oa.v, ob.v))
        raise OutOfSubset("conditional expression over unsupported values")

    def as_opt(self, v):
        if isinstance(v, OptV):
            return v
        if isinstance(v, NoneV):
            return OptV(z3.BoolVal(True), z3.IntVal(0))
        if isinstance(v, IntV):
            return OptV(z3.BoolVal(False), v.t)
        raise OutOfSubset("expected Optional[int]")

    def ev_ListComp(self, node, st, spec):
        return self.listcomp(node, st, spec)

    def ev_Dict(self, node, st, spec):
        if node.keys:
            raise OutOfSubset("non-empty dict literal")
        ty = self.c.get("dict_types", {}).get("{}")
        if ty is None:
            raise OutOfSubset("empty dict literal needs dict_types={'{}': 'dict[K,V]'} in the contract")
        kt, vt = [x.strip() for x in _split_top(ty[5:-1])]
        d = self.mk_dict("empty", kt, vt, fresh_names=True)
        d.has = z3.K(ELEM_SORT[kt], z3.BoolVal(False))
        return d

    def ev_Tuple(self, node, st, spec):
        return TupleV([self.ev(e, st, spec) for e in node.elts])

    def ev_List(self, node, st, spec):
        vals = [self.ev(e, st, spec) for e in node.elts]
        ek = elem_kind_of(vals[0]) if vals else "int"
        arr = fresh("lit", z3.ArraySort(z3.IntSort(), ELEM_SORT[ek]))
        for i, v in enumerate(vals):
            arr = z3.Store(arr, i, elem_term(ek, v))
        out = ListV(arr, z3.IntVal(len(vals)), ek)
        out.untyped = not vals
        return out

    def index(self, lst: ListV, idx, st, what):
        eff = z3.If(idx < 0, idx + lst.n, idx)
        self.vc(st, "safety", f"safety.index#{what}", z3.And(0 <= eff, eff < lst.n), "subscript in bounds")
        return eff

    def clamp(self, lst, v, default):
        if v is None:
            return default
        t = z3.If(v < 0, v + lst.n, v)
        return z3.If(t < 0, 0, z3.If(t > lst.n, lst.n, t))

    def slice_(self, lst: ListV, lo, hi, st):
        s = self.clamp(lst, lo, z3.IntVal(0))
        e = self.clamp(lst, hi, lst.n)
        n = z3.If(e > s, e - s, 0)
        out = mk_list("slice", lst.elem)
        j = fresh("j", z3.IntSort())
        self.define(st, out.n == n)
        self.define(st, z3.ForAll([j], z3.Implies(z3.And(0 <= j, j < n), out.arr[j] == lst.arr[s + j]), patterns=[out.arr[j]]))
        # the same fact keyed on the source (needed when a goal mentions only lst[i] and a callee's contract speaks about the slice)
        self.define(st, z3.ForAll([j], z3.Implies(z3.And(s <= j, j < s + n), out.arr[j - s] == lst.arr[j]), patterns=[lst.arr[j]]))
        return out

    def ev_Subscript(self, node, st, spec):
        base = self.ev(node.value, st, spec)
        if isinstance(node.slice, ast.Slice):
            if node.slice.step is not None:
                raise OutOfSubset("slice step")
            if not isinstance(base, ListV):
                raise OutOfSubset("slice of non-list")
            lo = self.as_int(self.ev(node.slice.lower, st, spec)) if node.slice.lower is not None else None
            hi = self.as_int(self.ev(node.slice.upper, st, spec)) if node.slice.upper is not None else None
            return self.slice_(base, lo, hi, st)
        idx = self.ev(node.slice, st, spec)
        if isinstance(base, DictV):
            kt = self.key_term(base, idx)
            if not spec:
                self.vc(st, "safety", f"safety.key#{ast.unparse(node)[:40]}", z3.Select(base.has, kt), "dict key present")
            return self.dict_get(base, kt)
        if isinstance(base, ObjV) and self.c.get("boxed_dicts") and isinstance(idx, ObjV):
            if not spec:
                self.vc(st, "safety", f"safety.key#{ast.unparse(node)[:40]}", DO_HAS(base.t, idx.t), "dict key present")
            n_ = DO_LEN(base.t, idx.t)
            return ListV(DO_ARR(base.t, idx.t), z3.If(n_ >= 0, n_, 0), "obj")
        if isinstance(base, ObjV) and self.c.get("boxed_dicts") and isinstance(idx, (IntV, BoolV)):
            k = self.as_int(idx)
            if not spec:
                self.vc(st, "safety", f"safety.key#{ast.unparse(node)[:40]}", DK_HAS(base.t, k), "dict key present")
            return ObjV(DK_VAL(base.t, k))
        if isinstance(base, TupleV):
            t = z3.simplify(self.as_int(idx))
            if z3.is_int_value(t):
                return base.items[t.as_long()]
            raise OutOfSubset("symbolic index into tuple")
        if isinstance(base, ListV):
            i = self.as_int(idx)
            if spec:
                return elem_value(base, base.arr[i])
            eff = self.index(base, i, st, ast.unparse(node)[:40])
            return elem_value(base, base.arr[eff])
        raise OutOfSubset(f"subscript of {type(base).__name__}")

    def concat(self, a: ListV, b: ListV, st):
        if a.elem != b.elem:
            raise OutOfSubset("concatenation of lists with different element kinds")
        out = mk_list("cat", a.elem)
        j = fresh("j", z3.IntSort())
        self.define(st, out.n == a.n + b.n)
        self.define(st, z3.ForAll([j], z3.Implies(z3.And(0 <= j, j < a.n), out.arr[j] == a.arr[j]), patterns=[out.arr[j]]))
        self.define(st, z3.ForAll([j], z3.Implies(z3.And(0 <= j, j < b.n), out.arr[a.n + j] == b.arr[j]), patterns=[b.arr[j]]))
        # the same fact keyed on the result (needed when only out[i] occurs in a goal)
        self.define(st, z3.ForAll([j], z3.Implies(z3.And(a.n <= j, j < a.n + b.n), out.arr[j] == b.arr[j - a.n]), patterns=[out.arr[j]]))
        return out

    def repeat(self, lst: ListV, k, st):
        one = z3.simplify(lst.n)
        if not (z3.is_int_value(one) and one.as_long() == 1):
            raise OutOfSubset("list repetition of a non-singleton")
        out = mk_list("rep", lst.elem)
        j = fresh("j", z3.IntSort())
        self.define(st, out.n == z3.If(k > 0, k, 0))
        self.define(st, z3.ForAll([j], z3.Implies(z3.And(0 <= j, j < out.n), out.arr[j] == lst.arr[0]), patterns=[out.arr[j]]))
        return out

    # ---- calls -------------------------------------------------------------------------------
    def ev_Call(self, node, st, spec):
        fn = node.func
        text = ast.unparse(node)
        sf = self.c.get("self_fields", {})
        if text in sf:
            return st.env["§" + text]
        if isinstance(fn, ast.Name):
            name = fn.id
            if name == "cast" and len(node.args) == 2:
                self.dropped.add("typing.cast")
                return self.ev(node.args[1], st, spec)
            if name in self.c.get("identity_calls", ()) and len(node.args) == 1 and not node.keywords:
                self.dropped.add("wrapper constructors " + "/".join(sorted(self.c["identity_calls"])) + " (a wrapped value is modelled by the value)")
                return self.ev(node.args[0], st, spec)
            if name == "len":
                v = self.ev(node.args[0], st, spec)
                if isinstance(v, ListV):
                    return IntV(v.n)
                if isinstance(v, TupleV):
                    return IntV(z3.IntVal(len(v.items)))
                raise OutOfSubset("len of non-list")
            if name in ("min", "max") and len(node.args) == 2:
                a, b = (self.as_int(self.ev(x, st, spec)) for x in node.args)
                return IntV(z3.If(a <= b, a, b) if name == "min" else z3.If(a >= b, a, b))
            if name == "abs":
                a = self.as_int(self.ev(node.args[0], st, spec))
                return IntV(z3.If(a >= 0, a, -a))
            if name == "zip" and len(node.args) == 1 and isinstance(node.args[0], ast.Starred):
                rows = self.ev(node.args[0].value, st, spec)
                if not (isinstance(rows, ListV) and rows.elem == "list[obj]"):
                    raise OutOfSubset("zip(*rows) over something that is not a list of object lists")
                # builtin contract (assumed, DESIGN 3.4): zip(*rows) has min(len(row)) tuples (none for no rows); tuple t holds rows[j][t] at position j
                out = mk_list("zipstar", "obj")
                j, t = fresh("zj", z3.IntSort()), fresh("zt", z3.IntSort())
                rowlen = lambda jj: z3.If(ObjList.n(rows.arr[jj]) >= 0, ObjList.n(rows.arr[jj]), 0)
                self.define(st, out.n >= 0)
                self.define(st, z3.Implies(rows.n <= 0, out.n == 0))
                self.define(st, z3.ForAll([j], z3.Implies(z3.And(0 <= j, j < rows.n), out.n <= rowlen(j))))
                self.define(st, z3.Implies(rows.n > 0, z3.Exists([j], z3.And(0 <= j, j < rows.n, out.n == rowlen(j)))))
                self.define(st, z3.ForAll([t, j], z3.Implies(z3.And(0 <= t, t < out.n),
                                                             z3.And(DK_HAS(out.arr[t], j) == z3.And(0 <= j, j < rows.n),
                                                                    z3.Implies(z3.And(0 <= j, j < rows.n), DK_VAL(out.arr[t], j) == ObjList.arr(rows.arr[j])[t]))),
                                          patterns=[z3.MultiPattern(out.arr[t], rows.arr[j])]))
                self.define(st, z3.ForAll([t, j], z3.Implies(z3.And(0 <= t, t < out.n, 0 <= j, j < rows.n), DK_VAL(out.arr[t], j) == ObjList.arr(rows.arr[j])[t]),
                                          patterns=[DK_VAL(out.arr[t], j)]))
                self.define(st, z3.ForAll([t], z3.Implies(z3.And(0 <= t, t < out.n), TUP_LEN(out.arr[t]) == z3.If(rows.n >= 0, rows.n, 0)), patterns=[out.arr[t]]))
                return out
            if (name == "dict" and len(node.args) == 1 and not node.keywords and isinstance(node.args[0], ast.Call) and isinstance(node.args[0].func, ast.Name)
                    and node.args[0].func.id == "zip" and len(node.args[0].args) == 2 and not any(isinstance(x, ast.Starred) for x in node.args[0].args)):
                ks, vs = (self.ev(x, st, spec) for x in node.args[0].args)
                if not (isinstance(ks, ListV) and ks.elem == "obj" and isinstance(vs, ObjV)):
                    raise OutOfSubset("dict(zip(keys, values)) over something that is not (list of objects, tuple)")
                # builtin contract (assumed, DESIGN 3.4): the dict has exactly the keys keys[0..m), m = min(len(keys), len(values)); the value under keys[j] is
                # values[j2] for SOME j2 >= j with keys[j2] == keys[j] (the last one; j2 == j when keys are distinct)
                d = DICTZIP(ks.arr, ks.n, vs.t)           # a function of its inputs (no fresh constant: usable inside a comprehension element)
                m = z3.If(ks.n <= TUP_LEN(vs.t), ks.n, TUP_LEN(vs.t))
                j, j2, k = fresh("dj", z3.IntSort()), fresh("dj2", z3.IntSort()), fresh("dk", Obj)
                self.define(st, z3.ForAll([k], DV_HAS(d, k) == z3.Exists([j], z3.And(0 <= j, j < m, ks.arr[j] == k)), patterns=[DV_HAS(d, k)]))
                self.define(st, z3.ForAll([j], z3.Implies(z3.And(0 <= j, j < m), DV_HAS(d, ks.arr[j])), patterns=[ks.arr[j]]))
                self.define(st, z3.ForAll([j], z3.Implies(z3.And(0 <= j, j < m),
                                                          z3.Exists([j2], z3.And(j <= j2, j2 < m, ks.arr[j2] == ks.arr[j], DV_VAL(d, ks.arr[j]) == DK_VAL(vs.t, j2)))),
                                          patterns=[ks.arr[j]]))
                return ObjV(d)
            if name == "list" and len(node.args) == 1:
                v = self.ev(node.args[0], st, spec)
                if isinstance(v, ListV):
                    return v
                raise OutOfSubset("list() of non-list")
            if name == "int" and len(node.args) == 1:
                return IntV(self.as_int(self.ev(node.args[0], st, spec)))
            if name == "float" and len(node.args) == 1 and isinstance(node.args[0], ast.Constant) and isinstance(node.args[0].value, str):
                return ObjV(self.const_obj(text))          # float('nan') / float('inf'): a distinguished opaque constant
            if name == "bool" and len(node.args) == 1:
                return BoolV(self.truth(self.ev(node.args[0], st, spec), st))
            if name == "isinstance":
                if text in sf:
                    return st.env["§" + text]
                if len(node.args) == 2 and isinstance(node.args[1], (ast.Name, ast.Attribute)):
                    x = self.ev(node.args[0], st, spec)
                    if isinstance(x, ObjV):
                        isf = z3.Function("isinstance", Obj, Obj, z3.BoolSort())      # uninterpreted: a fixed property of (object, class)
                        return BoolV(isf(x.t, self.const_obj(ast.unparse(node.args[1]))))
                raise OutOfSubset(f"isinstance not declared in self_fields: {text}")
            if spec:
                r = self.spec_call(name, node, st)
                if r is not None:
                    return r
            target = st.env.get(name)
            if isinstance(target, FuncV):
                return self.call_funcv(target, node, st, spec, name)
            if name in self.c.get("uses", {}):
                return self.call_contract(self.c["uses"][name], node.args, st, name)
            raise OutOfSubset(f"call to {name}")
        if isinstance(fn, ast.Attribute) and fn.attr == "get" and len(node.args) in (1, 2) and not node.keywords:
            basev = self.ev(fn.value, st, spec) if not (isinstance(fn.value, ast.Name) and fn.value.id not in st.env) else None
            if isinstance(basev, DictV) and not basev.vt.startswith("list["):
                kt = self.key_term(basev, self.ev(node.args[0], st, spec))
                dflt = self.ev(node.args[1], st, spec) if len(node.args) == 2 else NoneV()
                return self.ite(z3.Select(basev.has, kt), self.dict_get(basev, kt), dflt)
        if isinstance(fn, ast.Attribute):
            qual = ast.unparse(fn)
            site = f"{qual}#{self.call_ord.get(id(node), 0)}"
            if site in self.c.get("uses", {}):
                return self.call_contract(self.c["uses"][site], node.args, st, site)
            if qual in self.c.get("uses", {}):
                return self.call_contract(self.c["uses"][qual], node.args, st, qual)
            raise OutOfSubset(f"method call {qual} in expression position")
        raise OutOfSubset(f"call {text[:50]}")

    def call_funcv(self, f: FuncV, node, st, spec, name):
        args = [self.ev(a, st, spec) for a in node.args]
        if f.kind == "uf":
            fun, rs = f.data
            ts = [elem_term({z3.IntSort(): "int", Obj: "obj", IntList: "list[int]", z3.BoolSort(): "bool"}[fun.domain(i)], a) for i, a in enumerate(args)]
            r = fun(*ts)
            return {"int": IntV(r), "bool": BoolV(r), "obj": ObjV(r), "list[int]": ListV(IntList.arr(r), IntList.n(r), "int") if rs == "list[int]" else None}[rs]
        if f.kind == "closure":
            fdef, _ = f.data
            # the nested def is inlined at its call (it shares the enclosing variables; `nonlocal` reads only)
            sub = st.clone()
            for a_, v in zip(fdef.args.args, args):
                sub.env[a_.arg] = v
            base = len(st.pc)
            outs = self.exec_block(fdef.body, sub)
            if any(sig in ("raise", "break", "continue") for (_, sig, _) in outs):
                raise OutOfSubset("closure that raises")
            rets = [(s_, val if sig == "return" else NoneV()) for (s_, sig, val) in outs]
            for s_, _v in rets:
                self.carry_defs(s_, st)
            guard = lambda s_: z3.And(*[e for e in s_.pc[base:] if e.get_id() not in self.def_ids] or [z3.BoolVal(True)])
            val = rets[-1][1]
            for s_, v in reversed(rets[:-1]):
                val = self.ite(guard(s_), v, val)
            return val
        raise OutOfSubset("callable")

    def call_contract(self, callee: dict, arg_nodes, st, name):
        if len(arg_nodes) == 1 and isinstance(arg_nodes[0], ast.Starred):
            # f(*xs): the callee's contract has ONE list parameter standing for the positional arguments
            if len(callee["params"]) != 1 or not list(callee["params"].values())[0].startswith("list["):
                raise OutOfSubset("star call needs a callee contract with a single list parameter")
            args = [self.ev(arg_nodes[0].value, st, False)]
        else:
            args = [self.ev(a, st, False) for a in arg_nodes]
        sub = State()
        sub.pc = st.pc
        if name in st.env and isinstance(st.env[name], ObjV):
            sub.env["callee"] = st.env[name]          # the callable object itself (a local variable holding a function)
        for (pn, pty), v in zip(callee["params"].items(), args):
            if pty == "opt[int]":
                v = self.as_opt(v)
            sub.env[pn] = v
        for gname, gexpr in callee.get("ghost_args", {}).items():      # ghost state of the caller visible to the callee's contract
            sub.env[gname] = self.ev(_parse(gexpr), st, True)
        sub.old = dict(sub.env)
        for k, r in enumerate(callee.get("requires", [])):
            g = self.truth(self.ev(_parse(r), sub, True), sub)
            self.vc(st, "callpre", f"callpre.{name}#{k}", g, r)
        for pn in callee.get("modifies", []):          # list arguments the callee changes in place: new value constrained by the postcondition
            idx_ = list(callee["params"]).index(pn)
            an = arg_nodes[idx_]
            if not (isinstance(an, ast.Name) and isinstance(sub.env[pn], ListV)):
                raise OutOfSubset("an argument modified in place must be a list variable")
            sub.env["old_" + pn] = sub.env[pn]
            sub.env[pn] = mk_list(f"{pn}_after!{next(_fresh)}", sub.env[pn].elem)
            st.pc.append(sub.env[pn].n >= 0)
        res = self.make_param(f"{name}_res!{next(_fresh)}", callee.get("returns", "none"))
        sub.env["result"] = res
        for r in callee.get("ensures", []):
            fact = self.truth(self.ev(_parse(r), sub, True), sub)
            st.pc.append(fact)
        for pn in callee.get("modifies", []):
            st.env[arg_nodes[list(callee["params"]).index(pn)].id] = sub.env[pn]
        if callee.get("ghost_after"):                                    # effect of the call on the caller's ghost state; the
            saved = {}                                                   # callee's arguments / result are visible as arg_<name> / call_result
            for pn in list(callee["params"]) + ["result"]:
                key = "call_result" if pn == "result" else "arg_" + pn
                saved[key] = st.env.get(key)
                st.env[key] = sub.env[pn]
            self.run_ghost(callee["ghost_after"], st)
            for key, v in saved.items():
                if v is None:
                    st.env.pop(key, None)
                else:
                    st.env[key] = v
        return res

    # ---- specification vocabulary ---------------------------------------------------------------
    def spec_call(self, name, node, st):
        a = node.args
        if name in ("forall", "exists") and len(a) == 4 and isinstance(a[0], ast.Name):
            j = fresh(a[0].id, z3.IntSort())
            sub = st.clone()
            sub.env[a[0].id] = IntV(j)
            lo, hi = self.as_int(self.ev(a[1], sub, True)), self.as_int(self.ev(a[2], sub, True))
            self._binders.append(j)
            try:
                body = self.truth(self.ev(a[3], sub, True), sub)
            finally:
                self._binders.pop()
            if name == "forall":
                return BoolV(z3.ForAll([j], z3.Implies(z3.And(lo <= j, j < hi), body)))
            return BoolV(z3.Exists([j], z3.And(lo <= j, j < hi, body)))
        if name in ("forallo", "existso") and len(a) == 2 and isinstance(a[0], ast.Name):     # over all (opaque) objects
            j = fresh(a[0].id, Obj)
            sub = st.clone()
            sub.env[a[0].id] = ObjV(j)
            body = self.truth(self.ev(a[1], sub, True), sub)
            return BoolV(z3.ForAll([j], body) if name == "forallo" else z3.Exists([j], body))
        if name in ("forall", "exists") and len(a) == 2 and isinstance(a[0], ast.Name):      # over all integers
            j = fresh(a[0].id, z3.IntSort())
            sub = st.clone()
            sub.env[a[0].id] = IntV(j)
            self._binders.append(j)
            try:
                body = self.truth(self.ev(a[1], sub, True), sub)
            finally:
                self._binders.pop()
            return BoolV(z3.ForAll([j], body) if name == "forall" else z3.Exists([j], body))
        if name == "sum" and len(a) == 4 and isinstance(a[0], ast.Name):
            # the bound variable is named by nesting depth only, so that two textual occurrences of one summand are the SAME lambda term
            # (z3 compares bound-variable names); nested binders get different depths, so nothing is captured
            j = z3.Int(f"sumvar!{len(self._binders)}")
            sub = st.clone()
            sub.env[a[0].id] = IntV(j)
            lo, hi = self.as_int(self.ev(a[1], st, True)), self.as_int(self.ev(a[2], st, True))
            self._binders.append(j)
            try:
                body = self.as_int(self.ev(a[3], sub, True))
            finally:
                self._binders.pop()
            T = z3.Lambda([j], body)
            lo_s = z3.simplify(lo)
            if z3.is_int_value(lo_s) and lo_s.as_long() == 0:
                return IntV(SumF(T, hi))
            return IntV(SumF(T, hi) - SumF(T, lo))
        if name == "dictval" and len(a) == 2:      # value of an {object: object} dict held as an opaque object
            return ObjV(DV_VAL(self.ev(a[0], st, True).t, self.ev(a[1], st, True).t))
        if name == "haskey" and len(a) == 2:
            return BoolV(DV_HAS(self.ev(a[0], st, True).t, self.ev(a[1], st, True).t))
        if name == "implies" and len(a) == 2:
            return BoolV(z3.Implies(self.truth(self.ev(a[0], st, True), st), self.truth(self.ev(a[1], st, True), st)))
        if name == "iff" and len(a) == 2:
            return BoolV(self.truth(self.ev(a[0], st, True), st) == self.truth(self.ev(a[1], st, True), st))
        if name == "ite" and len(a) == 3:
            return self.ite(self.truth(self.ev(a[0], st, True), st), self.ev(a[1], st, True), self.ev(a[2], st, True))
        if name == "old" and len(a) == 1:
            sub = State()
            sub.env = dict(st.old)
            sub.pc = st.pc
            sub.old = st.old
            return self.ev(a[0], sub, True)
        if name == "pre" and len(a) == 1:
            if "§iter" not in st.env:
                raise OutOfSubset("pre() outside a loop body")
            sub = State()
            sub.env = dict(st.env["§iter"].items)
            sub.pc = st.pc
            sub.old = st.old
            return self.ev(a[0], sub, True)
        if name == "pow2" and len(a) == 1:
            return IntV(Pow2(self.as_int(self.ev(a[0], st, True))))
        if name == "is_none" and len(a) == 1:
            return BoolV(self.eq(self.ev(a[0], st, True), NoneV(), st))
        if name in self.c.get("macros", {}):
            params, body = self.c["macros"][name]
            sub = st.clone()
            for pn, an in zip(params, a):
                sub.env[pn] = self.ev(an, st, True)
            r = self.ev(_parse(body), sub, True)
            self.carry_defs(sub, st)
            return r
        if name in self.c.get("spec_defs", {}):
            fun = self.spec_def_fun(name)
            sig = self.c["spec_defs"][name]
            args = [elem_term(ty, self.ev(x, st, True)) for ty, x in zip(sig["params"].values(), a)]
            return {"int": IntV, "bool": BoolV, "obj": ObjV}[sig["returns"]](fun(*args))
        if name in self.c.get("spec_funcs", {}):
            sig = self.c["spec_funcs"][name]
            if name not in self.ufs:
                self.ufs[name] = z3.Function("spec:" + name, *[ELEM_SORT[s] for s in sig[0]], ELEM_SORT[sig[1]])
            args = [elem_term(s, self.ev(x, st, True)) for s, x in zip(sig[0], a)]
            r = self.ufs[name](*args)
            return {"int": IntV, "bool": BoolV, "obj": ObjV}[sig[1]](r)
        return None

    def spec_def_fun(self, name):
        """a specification function defined by a (possibly recursive) equation  name(params) == body; the body may mention the verified function's
        parameters (their entry values).  The defining equation is assumed as a quantified axiom with the application as its trigger."""
        key = "def:" + name
        if key not in self.ufs:
            sig = self.c["spec_defs"][name]
            self.ufs[key] = z3.Function("spec:" + name, *[ELEM_SORT[t] for t in sig["params"].values()], ELEM_SORT[sig["returns"]])
        return self.ufs[key]

    def spec_def_axioms(self, st):
        out = []
        wrap = {"int": IntV, "bool": BoolV, "obj": ObjV}
        for name, sig in self.c.get("spec_defs", {}).items():
            fun = self.spec_def_fun(name)
            bound = [fresh(pn, ELEM_SORT[ty]) for pn, ty in sig["params"].items()]
            sub = State()
            sub.env = dict(st.old)
            sub.old = st.old
            for (pn, ty), b in zip(sig["params"].items(), bound):
                sub.env[pn] = wrap[ty](b)
            body = self.ev(_parse(sig["body"]), sub, True)
            bt = self.truth(body, sub) if sig["returns"] == "bool" else (body.t if not isinstance(body, IntV) else body.t)
            out.append(z3.ForAll(bound, fun(*bound) == bt, patterns=[fun(*bound)]))
        return out

    # ---- statements ---------------------------------------------------------------------------------
    def exec_block(self, stmts, st: State):
        """-> list of (state, signal, value); signal in fall/return/raise/break/continue"""
        states = [(st, "fall", None)]
        for s in stmts:
            nxt = []
            for (cur, sig, val) in states:
                if sig != "fall":
                    nxt.append((cur, sig, val))
                else:
                    nxt.extend(self.exec_stmt(s, cur))
            states = nxt
            if len(states) > 400:
                raise OutOfSubset("path explosion")
        return states

    def exec_stmt(self, s, st: State):
        m = getattr(self, "st_" + type(s).__name__, None)
        if m is None:
            raise OutOfSubset(f"statement {type(s).__name__}: {ast.unparse(s)[:60]}")
        return m(s, st)

    def st_Pass(self, s, st):
        return [(st, "fall", None)]

    def st_ImportFrom(self, s, st):
        self.dropped.add("local import statements (imported names are opaque constants)")
        for a in s.names:
            if (a.asname or a.name) in st.env:
                raise OutOfSubset("import rebinding a local name")
        self.local_imports = getattr(self, "local_imports", set()) | {a.asname or a.name for a in s.names}
        return [(st, "fall", None)]

    st_Import = st_ImportFrom

    def st_Nonlocal(self, s, st):
        return [(st, "fall", None)]

    def st_Expr(self, s, st):
        v = s.value
        if isinstance(v, ast.Constant):
            self.dropped.add("docstring")
            return [(st, "fall", None)]
        if isinstance(v, ast.Call) and isinstance(v.func, ast.Name) and v.func.id == "print":
            self.dropped.add("print(...)")
            return [(st, "fall", None)]
        if isinstance(v, ast.Call) and isinstance(v.func, ast.Attribute) and isinstance(v.func.value, ast.Name) \
                and isinstance(st.env.get(v.func.value.id), ListV):
            name, meth = v.func.value.id, v.func.attr
            lst = st.env[name]
            if meth == "append" and len(v.args) == 1:
                x = self.ev(v.args[0], st)
                if isinstance(x, DictV):
                    x = self.box_dict(x, st)
                if z3.is_int_value(z3.simplify(lst.n)) and z3.simplify(lst.n).as_long() == 0 and lst.elem != elem_kind_of(x) and getattr(lst, "untyped", False):
                    lst = ListV(fresh(name, z3.ArraySort(z3.IntSort(), ELEM_SORT[elem_kind_of(x)])), lst.n, elem_kind_of(x))
                st.env[name] = ListV(z3.Store(lst.arr, lst.n, elem_term(lst.elem, x)), lst.n + 1, lst.elem)
                return [(st, "fall", None)]
            if meth == "reverse" and not v.args:
                out = mk_list(name + "_rev", lst.elem)
                j = fresh("j", z3.IntSort())
                self.define(st, out.n == lst.n)
                self.define(st, z3.ForAll([j], z3.Implies(z3.And(0 <= j, j < lst.n), out.arr[j] == lst.arr[lst.n - 1 - j]), patterns=[out.arr[j]]))
                st.env[name] = out
                return [(st, "fall", None)]
            if meth == "extend" and len(v.args) == 1:
                other = self.ev(v.args[0], st)
                if not isinstance(other, ListV):
                    raise OutOfSubset("extend with non-list")
                st.env[name] = self.concat(lst, other, st)
                return [(st, "fall", None)]
            raise OutOfSubset(f"list method {meth}")
        if isinstance(v, ast.Call):
            self.ev(v, st)           # a call for its effect on the path condition (contract callee)
            return [(st, "fall", None)]
        raise OutOfSubset(f"expression statement {ast.unparse(s)[:50]}")

    def assign(self, target, val, st):
        ss = self.c.get("self_state", {})
        if isinstance(target, ast.Attribute) and ast.unparse(target) in ss:
            return self.assign(ast.Name(id=ss[ast.unparse(target)][0], ctx=ast.Store()), val, st)
        if isinstance(target, ast.Subscript) and isinstance(target.value, ast.Attribute) and ast.unparse(target.value) in ss:
            t2 = ast.Subscript(value=ast.Name(id=ss[ast.unparse(target.value)][0], ctx=ast.Load()), slice=target.slice, ctx=ast.Store())
            return self.assign(t2, val, st)
        if isinstance(target, ast.Name) and isinstance(val, ListV) and getattr(val, "untyped", False):
            ty = self.c.get("local_types", {}).get(target.id)          # `xs = []`: element kind declared by the contract
            if ty and ty.startswith("list["):
                ek = ty[5:-1]
                val = ListV(fresh(target.id, z3.ArraySort(z3.IntSort(), ELEM_SORT[ek])), z3.IntVal(0), ek)
        if isinstance(target, ast.Name):
            if isinstance(st.env.get(target.id), OptV) and isinstance(val, (IntV, NoneV)):
                val = self.as_opt(val)
            st.env[target.id] = val
        elif isinstance(target, (ast.Tuple, ast.List)):
            if isinstance(val, TupleV) and len(val.items) == len(target.elts):
                for t, v in zip(target.elts, val.items):
                    self.assign(t, v, st)
            else:
                raise OutOfSubset("unpacking")
        elif isinstance(target, ast.Subscript) and isinstance(target.value, ast.Name) and isinstance(st.env.get(target.value.id), DictV):
            d = st.env[target.value.id]
            kt = self.key_term(d, self.ev(target.slice, st))
            nd = DictV(d.key, d.vt, z3.Store(d.has, kt, z3.BoolVal(True)))
            if d.vt.startswith("list["):
                if not (isinstance(val, ListV) and val.elem == d.vt[5:-1]):
                    raise OutOfSubset("dict store of a value of the wrong kind")
                nd.varr, nd.vlen = z3.Store(d.varr, kt, val.arr), z3.Store(d.vlen, kt, val.n)
            else:
                nd.val = z3.Store(d.val, kt, elem_term(d.vt, val))
            st.env[target.value.id] = nd
        elif isinstance(target, ast.Subscript) and isinstance(target.value, ast.Name) and not isinstance(target.slice, ast.Slice):
            lst = st.env.get(target.value.id)
            if not isinstance(lst, ListV):
                raise OutOfSubset("subscript store on non-list")
            idx = self.as_int(self.ev(target.slice, st))
            eff = self.index(lst, idx, st, ast.unparse(target)[:40])
            st.env[target.value.id] = ListV(z3.Store(lst.arr, eff, elem_term(lst.elem, val)), lst.n, lst.elem)
        elif isinstance(target, ast.Subscript) and isinstance(target.value, ast.Name) and isinstance(target.slice, ast.Slice) \
                and target.slice.upper is not None and target.slice.lower is None and ast.unparse(target.slice.upper) == "0":
            lst = st.env.get(target.value.id)        # xs[:0] = ys   (prepend)
            if not (isinstance(lst, ListV) and isinstance(val, ListV)):
                raise OutOfSubset("slice store")
            st.env[target.value.id] = self.concat(val, lst, st)
        else:
            raise OutOfSubset(f"assignment target {ast.unparse(target)[:40]}")

    def st_Assign(self, s, st):
        if isinstance(s.value, ast.ListComp):
            val = self.listcomp(s.value, st)
        else:
            val = self.ev(s.value, st)
        for t in s.targets:
            self.assign(t, val, st)
        return [(st, "fall", None)]

    def st_AnnAssign(self, s, st):
        self.dropped.add("type annotations")
        if s.value is None:
            return [(st, "fall", None)]
        fake = ast.Assign(targets=[s.target], value=s.value)
        return self.st_Assign(fake, st)

    def st_AugAssign(self, s, st):
        if isinstance(s.target, ast.Name) and isinstance(st.env.get(s.target.id), ListV) and isinstance(s.op, ast.Add):
            other = self.ev(s.value, st)
            if not isinstance(other, ListV):
                raise OutOfSubset("+= on list with non-list")
            st.env[s.target.id] = self.concat(st.env[s.target.id], other, st)
            return [(st, "fall", None)]
        node = ast.BinOp(left=_load(s.target), op=s.op, right=s.value)
        ast.copy_location(node, s)
        val = self.ev(node, st)
        self.assign(s.target, val, st)
        return [(st, "fall", None)]

    def st_Return(self, s, st):
        st.env["§ret"] = IntV(z3.IntVal(self.ret_ids.get(id(s), -1)))
        if isinstance(s.value, ast.ListComp):
            return [(st, "return", self.listcomp(s.value, st))]
        v = self.ev(s.value, st) if s.value is not None else NoneV()
        if isinstance(v, DictV) and self.c.get("boxed_dicts"):
            v = self.box_dict(v, st)
            v = ObjV(v.box)
        return [(st, "return", v)]

    def st_Raise(self, s, st):
        name = None
        if isinstance(s.exc, ast.Call) and isinstance(s.exc.func, ast.Name):
            name = s.exc.func.id
        elif isinstance(s.exc, ast.Name):
            name = s.exc.id
        return [(st, "raise", name or "Exception")]

    def st_Assert(self, s, st):
        g = self.truth(self.ev(s.test, st), st)
        self.vc(st, "safety", f"safety.assert#{ast.unparse(s.test)[:40]}", g, "assert statement")
        st.pc.append(g)
        return [(st, "fall", None)]

    def st_Break(self, s, st):
        return [(st, "break", None)]

    def st_Continue(self, s, st):
        return [(st, "continue", None)]

    def st_FunctionDef(self, s, st):
        st.env[s.name] = FuncV("closure", (s, None))
        return [(st, "fall", None)]

    def st_If(self, s, st):
        c = z3.simplify(self.truth(self.ev(s.test, st), st))
        out = []
        if not z3.is_false(c):
            s1 = st.clone()
            if not z3.is_true(c):
                s1.pc.append(c)
                s1.path += "T"
            out += self.exec_block(s.body, s1)
        if not z3.is_true(c):
            s2 = st.clone()
            nc = z3.Not(c)
            if not z3.is_false(c):
                s2.pc.append(nc)
                s2.path += "F"
            out += self.exec_block(s.orelse, s2) if s.orelse else [(s2, "fall", None)]
        return out

    # ---- loops -----------------------------------------------------------------------------------------
    def modified_names(self, body):
        names = set()
        ss = self.c.get("self_state", {})
        for n in ast.walk(ast.Module(body=body, type_ignores=[])):
            if isinstance(n, (ast.Assign, ast.AnnAssign, ast.AugAssign)):
                targets = n.targets if isinstance(n, ast.Assign) else [n.target]
                for t in targets:
                    for m in ast.walk(t):
                        if isinstance(m, ast.Attribute) and ast.unparse(m) in ss:
                            names.add(ss[ast.unparse(m)][0])
                    for m in ast.walk(t):
                        if isinstance(m, ast.Name):
                            names.add(m.id)
                            break
            elif isinstance(n, ast.For):
                for m in ast.walk(n.target):
                    if isinstance(m, ast.Name):
                        names.add(m.id)
            elif isinstance(n, ast.Call) and isinstance(n.func, ast.Attribute) and isinstance(n.func.value, ast.Name) \
                    and n.func.attr in ("append", "reverse", "extend", "pop", "insert", "sort"):
                names.add(n.func.value.id)
        return names

    def havoc(self, st, names):
        for nm in names:
            v = st.env.get(nm)
            if v is None:
                continue
            if isinstance(v, IntV):
                st.env[nm] = IntV(fresh(nm, z3.IntSort()))
            elif isinstance(v, BoolV):
                st.env[nm] = BoolV(fresh(nm, z3.BoolSort()))
            elif isinstance(v, ListV):
                st.env[nm] = mk_list(nm, v.elem)
                st.pc.append(st.env[nm].n >= 0)
            elif isinstance(v, ObjV):
                st.env[nm] = ObjV(fresh(nm, Obj), {}, v.maybe_none)
            elif isinstance(v, OptV):
                st.env[nm] = OptV(fresh(nm + "_none", z3.BoolSort()), fresh(nm, z3.IntSort()))
            elif isinstance(v, DictV):
                st.env[nm] = self.mk_dict(nm, v.key, v.vt, fresh_names=True)
            elif isinstance(v, NoneV):
                raise OutOfSubset(f"loop modifies {nm} which is None at loop entry (declare its type in the loop spec: types={{'{nm}': 'opt[int]'}})")
            else:
                raise OutOfSubset(f"cannot havoc {nm}")

    def iter_desc(self, node, st):
        """-> (count term or None for unbounded, elem(i) -> value, target-shape)"""
        if isinstance(node, ast.Call) and isinstance(node.func, ast.Name):
            f = node.func.id
            if f == "range":
                args = [self.as_int(self.ev(a, st)) for a in node.args]
                if len(args) == 1:
                    a, b, c = z3.IntVal(0), args[0], 1
                elif len(args) == 2:
                    a, b, c = args[0], args[1], 1
                else:
                    a, b = args[0], args[1]
                    cs = z3.simplify(args[2])
                    if not z3.is_int_value(cs) or cs.as_long() == 0:
                        raise OutOfSubset("range step must be a non-zero constant")
                    c = cs.as_long()
                if c > 0:
                    cnt = z3.If(b > a, (b - a + (c - 1)) / c, 0)
                else:
                    cnt = z3.If(a > b, (a - b + (-c - 1)) / (-c), 0)
                return cnt, (lambda i, s: IntV(a + i * c))
            if f == "reversed":
                cnt, el = self.iter_desc(node.args[0], st)
                return cnt, (lambda i, s: el(cnt - 1 - i, s))
            if f == "zip" and not any(isinstance(a, ast.Starred) for a in node.args):
                descs = [self.iter_desc(a, st) for a in node.args]
                cnt = descs[0][0]
                for d in descs[1:]:
                    cnt = z3.If(cnt <= d[0], cnt, d[0])
                return cnt, (lambda i, s: TupleV([d[1](i, s) for d in descs]))
            if f == "enumerate":
                cnt, el = self.iter_desc(node.args[0], st)
                return cnt, (lambda i, s: TupleV([IntV(i), el(i, s)]))
        if (isinstance(node, ast.Call) and isinstance(node.func, ast.Attribute) and node.func.attr in ("items", "keys") and not node.args
                and isinstance(node.func.value, ast.Name) and isinstance(st.env.get(node.func.value.id), DictV)):
            # iterating a dict: SOME enumeration of its keys without repetition (insertion order is not modelled; nothing proved may depend on the order).
            # The enumeration is visible to specifications as the ghost list <dict>_keys.
            d = st.env[node.func.value.id]
            if d.vt.startswith("list["):
                raise OutOfSubset("iteration over a dict of lists")
            ks = mk_list(node.func.value.id + "_keys", d.key)
            i, j, k = fresh("di", z3.IntSort()), fresh("dj", z3.IntSort()), fresh("dk", ELEM_SORT[d.key])
            self.define(st, ks.n >= 0)
            self.define(st, z3.ForAll([i], z3.Implies(z3.And(0 <= i, i < ks.n), z3.Select(d.has, ks.arr[i])), patterns=[ks.arr[i]]))
            self.define(st, z3.ForAll([i, j], z3.Implies(z3.And(0 <= i, i < j, j < ks.n), ks.arr[i] != ks.arr[j]), patterns=[z3.MultiPattern(ks.arr[i], ks.arr[j])]))
            self.define(st, z3.ForAll([k], z3.Implies(z3.Select(d.has, k), z3.Exists([i], z3.And(0 <= i, i < ks.n, ks.arr[i] == k))), patterns=[z3.Select(d.has, k)]))
            st.env[node.func.value.id + "_keys"] = ks
            wrap = {"int": IntV, "obj": ObjV, "bool": BoolV}
            if node.func.attr == "keys":
                return ks.n, (lambda i_, s_: wrap[d.key](ks.arr[i_]))
            return ks.n, (lambda i_, s_: TupleV([wrap[d.key](ks.arr[i_]), wrap[d.vt](z3.Select(d.val, ks.arr[i_]))]))
        if isinstance(node, ast.GeneratorExp):
            # a generator expression consumed once by the enclosing loop/zip: the same elements as the list comprehension (elements are side-effect free here)
            lc = ast.ListComp(elt=node.elt, generators=node.generators)
            ast.copy_location(lc, node)
            v = self.listcomp(lc, st)
        else:
            v = self.ev(node, st)
        if isinstance(v, ListV):
            return v.n, (lambda i, s: elem_value(v, v.arr[i]))
        raise OutOfSubset(f"iteration over {ast.unparse(node)[:40]}")

    def loop_spec(self, node):
        k = self.loop_ids[id(node)]
        spec = self.c.get("loops", {}).get(k)
        if spec is None:
            raise OutOfSubset(f"loop {k} has no invariant in the contract")
        return k, spec

    def run_ghost(self, stmts_src, st):
        for src in stmts_src:
            for s in ast.parse(textwrap.dedent(src)).body:
                outs = self.exec_stmt_spec(s, st)

    def exec_stmt_spec(self, s, st):
        # ghost statements: simple assignments evaluated with the spec vocabulary
        if isinstance(s, ast.Assign) and len(s.targets) == 1:
            val = self.ev(s.value, st, True)
            self.assign(s.targets[0], val, st)
            return
        if isinstance(s, ast.Expr) and isinstance(s.value, ast.Call):
            self.st_Expr(s, st)
            return
        raise OutOfSubset("ghost statement")

    def check_invs(self, st, spec, k, phase):
        for n, inv in enumerate(spec.get("invariant", [])):
            g = self.truth(self.ev(_parse(inv), st, True), st)
            self.vc(st, "inv." + phase, f"loop{k}.inv.{phase}#{n}", g, inv)

    def assume_invs(self, st, spec):
        for inv in spec.get("invariant", []):
            st.pc.append(self.truth(self.ev(_parse(inv), st, True), st))

    def st_While(self, s, st):
        if s.orelse:
            raise OutOfSubset("while-else")
        k, spec = self.loop_spec(s)
        return self.loop(k, spec, st, s.body,
                         cond=lambda stx: self.truth(self.ev(s.test, stx), stx),
                         bind=None, step=None, auto_dec=None, extra_mod=set())

    def st_For(self, s, st):
        if s.orelse:
            raise OutOfSubset("for-else")
        k, spec = self.loop_spec(s)
        if isinstance(s.iter, ast.Name) and s.iter.id in self.modified_names(s.body):
            raise OutOfSubset("for loop over a list modified in its body")
        if (isinstance(s.iter, ast.Call) and isinstance(s.iter.func, ast.Attribute) and isinstance(s.iter.func.value, ast.Name)
                and s.iter.func.value.id in self.modified_names(s.body)):
            raise OutOfSubset("for loop over a dict modified in its body")
        cnt, el = self.iter_desc(s.iter, st)
        idx = spec.get("index", f"_i{k}")
        if idx in {m.id for m in ast.walk(s.target) if isinstance(m, ast.Name)} | self.modified_names(s.body):
            raise OutOfSubset(f"loop {k}: ghost index name `{idx}` clashes with a variable assigned by the loop")
        st.env[idx] = IntV(z3.IntVal(0))
        st.env[idx + "_count"] = IntV(cnt)

        def bind(stx):
            self.assign(s.target, el(stx.env[idx].t, stx), stx)

        def step(stx):
            stx.env[idx] = IntV(stx.env[idx].t + 1)
        targets = {m.id for m in ast.walk(s.target) if isinstance(m, ast.Name)}
        return self.loop(k, spec, st, s.body, cond=lambda stx: stx.env[idx].t < cnt, bind=bind, step=step,
                         auto_dec=lambda stx: cnt - stx.env[idx].t, extra_mod={idx} | targets,
                         auto_inv=lambda stx: z3.And(0 <= stx.env[idx].t, stx.env[idx].t <= z3.If(cnt > 0, cnt, 0)), for_targets=targets, target_node=s.target)

    def loop(self, k, spec, st, body, cond, bind, step, auto_dec, extra_mod, auto_inv=None, for_targets=(), target_node=None):
        # declared types of variables whose kind changes in the loop (None -> value)
        for nm, ty in spec.get("types", {}).items():
            if ty == "opt[int]" and nm in st.env:
                st.env[nm] = self.as_opt(st.env[nm])
        # ghost initialisation
        self.run_ghost(spec.get("ghost_init", []), st)
        st.env[f"§entry{k}"] = TupleV([])
        entry_env = dict(st.env)
        # 1. invariants hold on entry
        self.check_invs(st, spec, k, "init")
        if auto_inv is not None:
            self.vc(st, "inv.init", f"loop{k}.inv.init#auto", auto_inv(st), "0 <= index <= count")
        # 2. arbitrary iteration
        ghost_src = spec.get("ghost_update", []) + spec.get("ghost_end", [])
        mod = set(self.modified_names(body)) | set(extra_mod)
        for src in ghost_src:
            mod |= self.modified_names(ast.parse(textwrap.dedent(src)).body)
        # ghost state changed by contract callees invoked in the body (their ghost_after statements)
        for n in ast.walk(ast.Module(body=body, type_ignores=[])):
            if isinstance(n, ast.Call):
                callee = self.c.get("uses", {}).get(ast.unparse(n.func))
                if callee:
                    for src in callee.get("ghost_after", []):
                        mod |= self.modified_names(ast.parse(textwrap.dedent(src)).body)
        head = st.clone()
        # targets of a for loop are (re)bound at the start of each iteration, everything else assigned in the body is havoced
        self.havoc(head, sorted(m for m in mod if m in head.env and m not in for_targets))
        head.path += f"L{k}"
        self.assume_invs(head, spec)
        if auto_inv is not None:
            head.pc.append(auto_inv(head))
        # 3. body
        b = head.clone()
        c = cond(b)
        b.pc.append(c)
        b.path += "b"
        if bind is not None:
            bind(b)
        dec0 = None
        if spec.get("decreases"):
            dec0 = self.as_int(self.ev(_parse(spec["decreases"]), b, True))
        elif auto_dec is not None:
            dec0 = auto_dec(b)
        elif spec.get("partial"):
            dec0 = None          # partial correctness only: recorded as an unchecked assumption by the driver
            self.partial_loops.append(k)
        else:
            raise OutOfSubset(f"while loop {k} needs a decreases clause")
        snap = TupleV([])
        snap.items = dict(b.env)          # environment at the start of the iteration, for pre(...)
        b.env["§iter"] = snap
        self.run_ghost(spec.get("ghost_update", []), b)
        outs = self.exec_block(body, b)
        results = []
        for (sx, sig, val) in outs:
            if sig in ("fall", "continue"):
                self.run_ghost(spec.get("ghost_end", []), sx)
                if step is not None:
                    step(sx)
                for hn, hint in enumerate(spec.get("hints", [])):      # intermediate lemmas: proved, then assumed
                    try:
                        hg = self.truth(self.ev(_parse(hint), sx, True), sx)
                    except OutOfSubset as e:
                        if "unknown name in specification" in str(e):
                            continue          # the hint mentions a local that this path does not define: not used here (sound: hints are only lemmas)
                        raise
                    self.vc(sx, "hint", f"loop{k}.hint#{hn}", hg, hint)
                    sx.pc.append(hg)
                    self._keep.append(hg)
                    self.hint_ids.add(hg.get_id())
                self.check_invs(sx, spec, k, "preserve")
                if auto_inv is not None:
                    self.vc(sx, "inv.preserve", f"loop{k}.inv.preserve#auto", auto_inv(sx), "0 <= index <= count")
                if dec0 is not None:
                    if spec.get("decreases"):
                        dec1 = self.as_int(self.ev(_parse(spec["decreases"]), sx, True))
                    else:
                        dec1 = auto_dec(sx)
                    self.vc(sx, "decreases", f"loop{k}.decreases", z3.And(dec0 >= 0, dec1 < dec0), spec.get("decreases", "count - index"))
            elif sig == "break":
                results.append((sx, "fall", None))
            else:
                results.append((sx, sig, val))
        # 4. exit (a `while True:` loop is left only through return / break / raise)
        e = head.clone()
        ce = z3.simplify(cond(e))
        if not z3.is_true(ce):
            e.pc.append(z3.Not(ce))
            e.path += "x"
            results.append((e, "fall", None))
        return results

    # ---- list comprehensions ---------------------------------------------------------------------------------
    def listcomp(self, node: ast.ListComp, st, spec=False):
        if len(node.generators) != 1 or node.generators[0].is_async:
            raise OutOfSubset("nested comprehension")
        g = node.generators[0]
        # [x for x in xs] (also through identity wrappers such as Clause(x)): a copy of xs — lists are values here
        elt0 = node.elt
        while isinstance(elt0, ast.Call) and isinstance(elt0.func, ast.Name) and elt0.func.id in self.c.get("identity_calls", ()) and len(elt0.args) == 1:
            elt0 = elt0.args[0]
        if isinstance(elt0, ast.Name) and isinstance(g.target, ast.Name) and elt0.id == g.target.id and not g.ifs and isinstance(g.iter, ast.Name):
            src = st.env.get(g.iter.id)
            if isinstance(src, ListV):
                return src
        cnt, el = self.iter_desc(g.iter, st)
        if len(g.ifs) > 1:
            raise OutOfSubset("comprehension with several ifs")
        j = fresh("k", z3.IntSort())
        sub = st.clone()
        sub.pc.append(z3.And(0 <= j, j < cnt))
        self.assign(g.target, el(j, sub), sub)
        nvc = len(self.vcs)
        mark = _fresh_mark()
        if isinstance(node.elt, ast.ListComp):
            raise OutOfSubset("nested comprehension")
        elt = self.ev(node.elt, sub, spec)
        # facts introduced while evaluating the element (slices, div/mod) depend on j: quantify them
        extra = sub.pc[len(st.pc) + 1:]
        ek = elem_kind_of(elt)
        if g.ifs:
            raise OutOfSubset("filtering comprehension (declare a contract helper)")
        out = mk_list("comp", ek)
        self.define(st, out.n == z3.If(cnt > 0, cnt, 0))
        body = out.arr[j] == elem_term(ek, elt)
        # skolem symbols created inside (slice arrays) are functions of j: existentially closed per j by construction of
        # fresh constants — sound only if they are used for this j alone; we therefore forbid extra facts here.
        if extra:
            # universally valid facts about the element (builtin contracts stated with functions of their inputs) may be quantified over j; anything
            # mentioning a constant created while evaluating the element (a skolem that depends on j) may not
            newc = [c for c in _free_consts(extra) if "!" in c.decl().name() and int(c.decl().name().rsplit("!", 1)[1]) > mark and not c.eq(j)]
            if newc:
                raise OutOfSubset("comprehension element needs auxiliary definitions (slice/div inside comprehension)")
            body = z3.And(body, *extra)
        self.define(st, z3.ForAll([j], z3.Implies(z3.And(0 <= j, j < cnt), body), patterns=[out.arr[j]]))
        return out

    # ---- driver --------------------------------------------------------------------------------------------------
    def run(self):
        st = State()
        c = self.c
        args = [a.arg for a in self.fn.args.args]
        for a in args:
            if a == "self":
                st.env["self"] = ObjV(z3.Const("self", Obj))
                continue
            if a not in c["params"]:
                raise OutOfSubset(f"parameter {a} has no declared type in the contract")
            st.env[a] = self.make_param(a, c["params"][a])
            if isinstance(st.env[a], ListV):
                st.pc.append(st.env[a].n >= 0)
        for fv, fty in c.get("free_vars", {}).items():      # captured variables of a nested function
            st.env[fv] = self.make_param(fv, fty)
        extra_params = [p for p in c["params"] if p not in args]
        if extra_params:
            raise OutOfSubset(f"contract declares unknown parameters {extra_params}")
        for text, (sym, ty) in c.get("self_fields", {}).items():
            if sym not in st.env:
                st.env[sym] = self.make_param(sym, ty)
            st.env["§" + text] = st.env[sym]
        for text, (sym, ty) in c.get("self_state", {}).items():
            st.env[sym] = self.make_param(sym, ty)
            if isinstance(st.env[sym], ListV):
                st.pc.append(st.env[sym].n >= 0)
        for gname, (gty, ginit) in c.get("ghost", {}).items():
            st.env[gname] = self.ev(_parse(ginit), st, True) if ginit is not None else self.make_param(gname, gty)
        st.old = dict(st.env)
        for ax in self.spec_def_axioms(st):
            st.pc.append(ax)
        for r in c.get("requires", []):
            st.pc.append(self.truth(self.ev(_parse(r), st, True), st))
        self.pre = list(st.pc)
        outs = self.exec_block(self.fn.body, st)
        for (sx, sig, val) in outs:
            if sig in ("break", "continue"):
                raise OutOfSubset("break/continue outside loop")
            if sig == "fall":
                sig, val = "return", NoneV()
                sx.env.pop("§ret", None)
            if sig == "return":
                sx.env["result"] = val
                rid0 = sx.env.get("§ret")
                rid0 = z3.simplify(rid0.t).as_long() if rid0 is not None else -1
                # intermediate lemmas at the return point (post_hints: every return; post_hints_at[n]: the n-th return, -1 = falling off the end):
                # proved in order, then assumed
                for hn, hint in enumerate(list(c.get("post_hints", [])) + list(c.get("post_hints_at", {}).get(rid0, []))):
                    try:
                        hg = self.truth(self.ev(_parse(hint), sx, True), sx)
                    except OutOfSubset as e:
                        if "unknown name in specification" in str(e):
                            continue
                        raise
                    self.vc(sx, "hint", f"post.hint#{hn}", hg, hint)
                    sx.pc.append(hg)
                    self._keep.append(hg)
                for n, e in enumerate(c.get("ensures", [])):
                    g = self.truth(self.ev(_parse(e), sx, True), sx)
                    self.vc(sx, "post", f"post#{n}", g, e)
                # postconditions attached to one `return` statement (by ordinal in source order): the statements return values of different kinds
                rid = sx.env.get("§ret")
                rid = z3.simplify(rid.t).as_long() if rid is not None else -1
                for n, e in enumerate(c.get("ensures_at", {}).get(rid, [])):
                    g = self.truth(self.ev(_parse(e), sx, True), sx)
                    self.vc(sx, "post", f"post@return{rid}#{n}", g, e)
            elif sig == "raise":
                allowed = c.get("raises", {})
                if val in allowed:
                    g = self.truth(self.ev(_parse(allowed[val]), sx, True), sx)
                    self.vc(sx, "raises", f"raises.{val}", g, f"raise {val} only if {allowed[val]}")
                else:
                    self.vc(sx, "raises", f"raises.{val}", z3.BoolVal(False), f"undeclared raise {val} must be unreachable")
        return self.vcs


def _mentions(expr, consts):
    ids = {c.get_id() for c in consts}
    seen = set()
    stack = [expr]
    while stack:
        e = stack.pop()
        if e.get_id() in seen:
            continue
        seen.add(e.get_id())
        if e.get_id() in ids:
            return True
        if z3.is_app(e):
            stack.extend(e.children())
        elif z3.is_quantifier(e):
            stack.append(e.body())
    return False


def _split_top(s):
    out, depth, cur = [], 0, ""
    for ch in s:
        if ch in "[{(":
            depth += 1
        if ch in "]})":
            depth -= 1
        if ch == "," and depth == 0:
            out.append(cur)
            cur = ""
        else:
            cur += ch
    if cur.strip():
        out.append(cur)
    return out


_parse_cache: dict = {}


def _parse(src: str):
    if src not in _parse_cache:
        _parse_cache[src] = ast.parse(src.strip(), mode="eval").body
    return _parse_cache[src]


def _load(target):
    t = ast.parse(ast.unparse(target), mode="eval").body
    return t


# --------------------------------------------------------------------------- instantiation of Sum / pow2 axioms
def _collect_apps(expr, decl, acc, bound_depth=0):
    if z3.is_quantifier(expr):
        return      # applications under binders mention bound variables: not instantiated
    if z3.is_app(expr):
        if expr.decl().eq(decl):
            acc[expr.get_id()] = expr
        for ch in expr.children():
            _collect_apps(ch, decl, acc)


def _sel(T, i):
    """T[i] with the lambda applied (beta-reduced), so that lemma instances mention the summand's own terms"""
    if z3.is_quantifier(T) and T.is_lambda() and T.num_vars() == 1:
        return z3.substitute_vars(T.body(), i)
    return z3.Select(T, i)


def _free_consts(exprs):
    """uninterpreted constants occurring free in the expressions (bound variables are de Bruijn indices, not constants)"""
    seen, out = set(), {}
    stack = list(exprs)
    while stack:
        e = stack.pop()
        if e.get_id() in seen:
            continue
        seen.add(e.get_id())
        if z3.is_quantifier(e):
            stack.append(e.body())
        elif z3.is_app(e):
            if e.num_args() == 0 and e.decl().kind() == z3.Z3_OP_UNINTERPRETED:
                out[e.get_id()] = e
            stack.extend(e.children())
    return list(out.values())


def _collect_apps_deep(expr, decl, acc):
    """applications of decl anywhere in expr, also under binders"""
    seen = set()
    stack = [expr]
    while stack:
        e = stack.pop()
        if e.get_id() in seen:
            continue
        seen.add(e.get_id())
        if z3.is_quantifier(e):
            stack.append(e.body())
        elif z3.is_app(e):
            if e.decl().eq(decl):
                acc[e.get_id()] = e
            stack.extend(e.children())


def spec_axioms(formulas, depth=2, ranges=False, binary=False):
    """Ground instances of the defining equations of Sum and pow2 for the terms occurring in `formulas`.
    Sum(T, n) = 0 for n <= 0, Sum(T, n) = Sum(T, n-1) + T[n-1] for n > 0;  congruence for pairs of Sum terms;
    pow2(t) = 1 for t <= 0, pow2(t) = 2*pow2(t-1) for t > 0."""
    out = []
    seen_s, seen_p = {}, {}
    frontier = list(formulas)
    for _ in range(depth):
        accs, accp = {}, {}
        for f in frontier:
            _collect_apps(f, SumF, accs)
            _collect_apps(f, Pow2, accp)
        new = []
        for i, app in accs.items():
            if i in seen_s:
                continue
            seen_s[i] = app
            T, n = app.arg(0), app.arg(1)
            ax = z3.And(z3.Implies(n <= 0, app == 0), z3.Implies(n > 0, app == SumF(T, n - 1) + _sel(T, n - 1)))
            out.append(ax)
            new.append(ax)
        for i, app in accp.items():
            if i in seen_p:
                continue
            seen_p[i] = app
            t = app.arg(0)
            ax = z3.And(app >= 1, z3.Implies(t <= 0, app == 1), z3.Implies(t > 0, app == 2 * Pow2(t - 1)))
            out.append(ax)
            new.append(ax)
        frontier = new
    apps = list(seen_s.values())
    # range lemmas for two sums over the SAME summand with different bounds (theorems of the recursive definition, induction on the
    # distance; proved on every run by check_sum_lemmas): monotone for non-negative summands, at most (b - a) for summands <= 1, equal
    # for zero summands.  Also every sum against the empty sum Sum(T, 0) == 0.
    by_T = {}
    for a in (apps if ranges else []):          # opt-in per contract (lemmas=["sum_ranges"]): the instances are quantified and slow unrelated proofs down
        by_T.setdefault(a.arg(0).get_id(), []).append(a)
    for group in by_T.values():
        T = group[0].arg(0)
        zero = SumF(T, z3.IntVal(0))
        out.append(zero == 0)
        for a, b in itertools.permutations(group + [zero], 2):
            lo, hi = a.arg(1), b.arg(1)
            if lo.eq(hi):
                continue
            i = fresh("ri", z3.IntSort())
            rng = z3.And(lo <= i, i < hi)
            out.append(z3.Implies(z3.And(lo <= hi, z3.ForAll([i], z3.Implies(rng, _sel(T, i) >= 0))), a <= b))
            out.append(z3.Implies(z3.And(lo <= hi, z3.ForAll([i], z3.Implies(rng, _sel(T, i) <= 1))), b - a <= hi - lo))
            out.append(z3.Implies(z3.And(lo <= hi, z3.ForAll([i], z3.Implies(rng, _sel(T, i) == 0))), a == b))
    if binary:
        tq = fresh("pt", z3.IntSort())
        out.append(z3.ForAll([tq], Pow2(tq) >= 1, patterns=[Pow2(tq)]))          # pow2 is positive (from its definition: 1 below 0, doubling above)
        # weighted-bit sums: every summand T[i] is 0 or pow2(i).  bound: 0 <= Sum(T,n) < pow2(n);  uniqueness: equal sums of equal length have equal summands
        isbit = lambda T, i: z3.Or(_sel(T, i) == 0, _sel(T, i) == Pow2(i))
        for a in apps:
            T, n = a.arg(0), a.arg(1)
            i = fresh("bi", z3.IntSort())
            out.append(z3.Implies(z3.And(n >= 0, z3.ForAll([i], z3.Implies(z3.And(0 <= i, i < n), isbit(T, i)))), z3.And(0 <= a, a < Pow2(n))))
        for a, b in itertools.combinations(apps, 2):
            if a.arg(0).eq(b.arg(0)):
                continue
            i, j = fresh("bi", z3.IntSort()), fresh("bj", z3.IntSort())
            n = a.arg(1)
            out.append(z3.Implies(z3.And(n == b.arg(1), n >= 0, a == b,
                                         z3.ForAll([i], z3.Implies(z3.And(0 <= i, i < n), isbit(a.arg(0), i))),
                                         z3.ForAll([i], z3.Implies(z3.And(0 <= i, i < n), isbit(b.arg(0), i)))),
                                  z3.And(z3.ForAll([j], z3.Implies(z3.And(0 <= j, j < n), _sel(a.arg(0), j) == _sel(b.arg(0), j))),
                                         z3.ForAll([j], z3.Implies(z3.And(0 <= j, j < n), _sel(b.arg(0), j) == _sel(a.arg(0), j))))))
        # complement: summands that add up to pow2(i) position by position  =>  the two sums add up to pow2(n) - 1   (two's complement: flipped bits)
        for a, b in itertools.combinations(apps, 2):
            if a.arg(0).eq(b.arg(0)):
                continue
            i = fresh("ki", z3.IntSort())
            n = a.arg(1)
            out.append(z3.Implies(z3.And(n == b.arg(1), n >= 0,
                                         z3.ForAll([i], z3.Implies(z3.And(0 <= i, i < n), _sel(a.arg(0), i) + _sel(b.arg(0), i) == Pow2(i)))),
                                  a + b == Pow2(n) - 1))
        pows = list(seen_p.values())
        for a, b in itertools.permutations(pows, 2):
            out.append(z3.Implies(a.arg(0) <= b.arg(0), a <= b))
            out.append(z3.Implies(z3.And(a.arg(0) < b.arg(0), b.arg(0) > 0), 2 * a <= b))
    for a, b in itertools.combinations(apps, 2):
        if a.arg(0).eq(b.arg(0)):
            continue
        i = fresh("ci", z3.IntSort())
        out.append(z3.Implies(z3.And(a.arg(1) == b.arg(1),
                                     z3.ForAll([i], z3.Implies(z3.And(0 <= i, i < a.arg(1)), _sel(a.arg(0), i) == _sel(b.arg(0), i)))),
                              a == b))
    return out


def check_sum_lemmas(ms=10_000):
    """The congruence instances used above are theorems of the recursive definition (induction on n).
    Checked here as two VCs (base, step) so that the axiom schema is not an unchecked assumption."""
    T1 = z3.Const("T1", z3.ArraySort(z3.IntSort(), z3.IntSort()))
    T2 = z3.Const("T2", z3.ArraySort(z3.IntSort(), z3.IntSort()))
    n, i = z3.Ints("n i")
    defs = lambda T, m: z3.And(z3.Implies(m <= 0, SumF(T, m) == 0), z3.Implies(m > 0, SumF(T, m) == SumF(T, m - 1) + T[m - 1]))
    agree = lambda m: z3.ForAll([i], z3.Implies(z3.And(0 <= i, i < m), T1[i] == T2[i]))
    base = prove([n <= 0, defs(T1, n), defs(T2, n)], SumF(T1, n) == SumF(T2, n), ms)
    step = prove([n > 0, defs(T1, n), defs(T2, n), z3.Implies(agree(n - 1), SumF(T1, n - 1) == SumF(T2, n - 1)), agree(n)],
                 SumF(T1, n) == SumF(T2, n), ms)
    # range lemmas, induction on hi (lo fixed): P(hi) := lo <= hi /\ (forall i in [lo,hi). cond(T[i])) -> rel(Sum(T,lo), Sum(T,hi))
    lo, hi = z3.Ints("lo hi")
    out = [("lemma.sum_congruence.base", base), ("lemma.sum_congruence.step", step)]
    for nm, cond, rel in (("monotone", lambda v: v >= 0, lambda sl, sh, l, h: sl <= sh),
                          ("count_bound", lambda v: v <= 1, lambda sl, sh, l, h: sh - sl <= h - l),
                          ("zero_range", lambda v: v == 0, lambda sl, sh, l, h: sl == sh)):
        allc = lambda h: z3.ForAll([i], z3.Implies(z3.And(lo <= i, i < h), cond(T1[i])))
        b_ = prove([hi == lo], rel(SumF(T1, lo), SumF(T1, hi), lo, hi), ms)
        s_ = prove([hi > lo, defs(T1, hi), defs(T1, hi - 1), defs(T1, lo), z3.Implies(allc(hi - 1), rel(SumF(T1, lo), SumF(T1, hi - 1), lo, hi - 1)), allc(hi)],
                   rel(SumF(T1, lo), SumF(T1, hi), lo, hi), ms)
        out += [(f"lemma.sum_{nm}.base", b_), (f"lemma.sum_{nm}.step", s_)]
    # reindexing a finite universal statement from the other end (used where a contract enumerates "all units hold" from the last to the first)
    Pq = z3.Function("lemmaP", z3.IntSort(), z3.BoolSort())
    jq = z3.Int("jq")
    # proved by hand-instantiation (forall-intro on an arbitrary index i0, forall-elim of the premise at n-1-i0): leaving the instantiation to the
    # solver's quantifier heuristics made this obligation flip to `unknown` under load
    i0 = z3.Int("i0")
    inst = lambda body_at, at: z3.Implies(z3.And(0 <= at, at < n), body_at)
    out.append(("lemma.reindex", prove([inst(Pq(n - 1 - (n - 1 - i0)), n - 1 - i0), 0 <= i0, i0 < n], Pq(i0), ms)))
    out.append(("lemma.reindex.converse", prove([inst(Pq(n - 1 - i0), n - 1 - i0), 0 <= i0, i0 < n], Pq(n - 1 - i0), ms)))
    # pow2: definition instances, then monotonicity by induction on the distance d: pow2(a) <= pow2(a+d) and (d >= 1 -> 2 pow2(a) <= pow2(a+d))
    a_, d = z3.Ints("a d")
    pdef = lambda t: z3.And(Pow2(t) >= 1, z3.Implies(t <= 0, Pow2(t) == 1), z3.Implies(t > 0, Pow2(t) == 2 * Pow2(t - 1)))
    mono = lambda dd: z3.And(Pow2(a_) <= Pow2(a_ + dd), z3.Implies(z3.And(dd >= 1, a_ + dd > 0), 2 * Pow2(a_) <= Pow2(a_ + dd)))
    out.append(("lemma.pow2_mono.base", prove([d == 0, pdef(a_)], mono(d), ms)))
    out.append(("lemma.pow2_mono.step", prove([d > 0, pdef(a_), pdef(a_ + d), pdef(a_ + d - 1), pdef(a_ + 1), mono(d - 1),
                                               # for a + d <= 0 both are 1; the step needs pow2 at a+d from a+d-1
                                               z3.Implies(a_ + d <= 0, z3.And(Pow2(a_ + d) == 1, Pow2(a_) == 1))], mono(d), ms)))
    # complement: T1[i] + T2[i] == pow2(i) for i < n  ->  Sum(T1,n) + Sum(T2,n) == pow2(n) - 1   (induction on n)
    compl = lambda m: z3.ForAll([i], z3.Implies(z3.And(0 <= i, i < m), T1[i] + T2[i] == Pow2(i)))
    out.append(("lemma.binary_complement.base", prove([n == 0, defs(T1, n), defs(T2, n), pdef(n)], SumF(T1, n) + SumF(T2, n) == Pow2(n) - 1, ms)))
    out.append(("lemma.binary_complement.step", prove([n > 0, defs(T1, n), defs(T2, n), pdef(n), pdef(n - 1), compl(n),
                                                       z3.Implies(compl(n - 1), SumF(T1, n - 1) + SumF(T2, n - 1) == Pow2(n - 1) - 1)],
                                                      SumF(T1, n) + SumF(T2, n) == Pow2(n) - 1, ms)))
    # binary bound: n >= 0 and all summands bits -> 0 <= Sum(T,n) < pow2(n)   (induction on n)
    isbit = lambda T, k: z3.Or(T[k] == 0, T[k] == Pow2(k))
    allbits = lambda T, m: z3.ForAll([i], z3.Implies(z3.And(0 <= i, i < m), isbit(T, i)))
    bound = lambda T, m: z3.And(0 <= SumF(T, m), SumF(T, m) < Pow2(m))
    out.append(("lemma.binary_bound.base", prove([n == 0, defs(T1, n), pdef(n)], bound(T1, n), ms)))
    out.append(("lemma.binary_bound.step", prove([n > 0, defs(T1, n), pdef(n), pdef(n - 1), z3.Implies(allbits(T1, n - 1), bound(T1, n - 1)), allbits(T1, n)], bound(T1, n), ms)))
    # binary uniqueness (induction on n, uses the bound at n-1)
    agree_all = lambda m: z3.ForAll([i], z3.Implies(z3.And(0 <= i, i < m), T1[i] == T2[i]))
    uniq = lambda m: z3.Implies(z3.And(allbits(T1, m), allbits(T2, m), SumF(T1, m) == SumF(T2, m)), agree_all(m))
    out.append(("lemma.binary_unique.base", prove([n == 0], uniq(n), ms)))
    out.append(("lemma.binary_unique.step", prove([n > 0, defs(T1, n), defs(T2, n), pdef(n - 1), uniq(n - 1),
                                                   z3.Implies(allbits(T1, n - 1), bound(T1, n - 1)), z3.Implies(allbits(T2, n - 1), bound(T2, n - 1))], uniq(n), ms)))
    return out


# --------------------------------------------------------------------------- public API
def locate(target: str, transform=None):
    """'module:Qual.name' -> (source text of the function, FunctionDef node, module globals, file, sha)
    `transform` (self-tests only) rewrites the module text before parsing."""
    mod, _, qual = target.partition(":")
    m = importlib.import_module(mod)
    src_file = inspect.getsourcefile(m)
    full = open(src_file).read()
    if transform is not None:
        full = transform(full)
    tree = ast.parse(full)
    node = tree
    for part in qual.split("."):
        found = None
        inner = part.startswith("<") and part.endswith(">")      # a function defined inside the previous one
        part = part.strip("<>")
        for ch in (ast.walk(node) if inner else ast.iter_child_nodes(node)):
            if isinstance(ch, (ast.FunctionDef, ast.ClassDef)) and ch.name == part and ch is not node:
                found = ch
        if found is None:
            raise LookupError(f"{target}: {part} not found in {src_file}")
        node = found
    if not isinstance(node, ast.FunctionDef):
        raise LookupError(f"{target} is not a function")
    import hashlib
    text = ast.get_source_segment(full, node)
    return text, node, vars(m), src_file, hashlib.sha256(text.encode()).hexdigest()[:16]


def verify(contract: dict, all_contracts: dict | None = None, ms: int = 10_000, transform=None):
    """-> dict(vcs=[VC...], dropped=[...], error=None|str, sha=..., file=...)"""
    t0 = time.time()
    try:
        text, node, g, file, sha = locate(contract["target"], transform)
    except Exception as e:
        return dict(vcs=[], dropped=[], error=f"cannot locate: {e}", sha=None, file=None, secs=0)
    ex = Executor(contract, all_contracts or {}, text, node, g)
    if node.decorator_list:
        ex.dropped.add("decorators: " + ", ".join(ast.unparse(d) for d in node.decorator_list))
    try:
        vcs = ex.run()
    except OutOfSubset as e:
        return dict(vcs=[], dropped=sorted(ex.dropped), error=f"out of subset: {e}", sha=sha, file=file, secs=time.time() - t0)
    # vacuity guard: one reachability obligation per distinct path — `False` must NOT be derivable from its hypotheses
    seen_paths = {}
    for vc in list(vcs):
        if vc.kind in ("post", "inv.preserve", "raises") and vc.path not in seen_paths:
            seen_paths[vc.path] = True
            g = VC(f"{contract['id']}.reach[{vc.path or 'entry'}]", "reach", vc.hyps, z3.BoolVal(False), vc.path, "hypotheses of this path are not contradictory")
            vcs.append(g)
    for vc in vcs:
        hyps = vc.hyps
        rg = "sum_ranges" in contract.get("lemmas", ())
        bn = "binary" in contract.get("lemmas", ())
        if (rg or bn) and vc.kind != "reach":
            # the opt-in lemma families are quantified and numerous: instantiate them only for goals that talk about sums or powers at all
            # (dropping hypotheses is sound; a goal that needed them comes back undecided, never wrong)
            acc_s, acc_p = {}, {}
            _collect_apps_deep(vc.goal, SumF, acc_s)
            _collect_apps_deep(vc.goal, Pow2, acc_p)
            if not acc_s and not acc_p:
                rg = bn = False
        ax = spec_axioms(hyps + [vc.goal], ranges=rg, binary=bn)
        if vc.kind == "reach":
            verdict, m, dt, be = prove(hyps + ax, vc.goal, min(ms, 2000))
        else:
            # attempt 1 without the hint lemmas (dropping hypotheses is sound and keeps the query small), attempt 2 with them
            lean = [h for h in hyps if h.get_id() not in ex.hint_ids]
            verdict, m, dt, be = ("undecided", None, 0.0, "z3")
            if len(lean) != len(hyps):
                verdict, m, dt, be = prove(lean + spec_axioms(lean + [vc.goal], ranges=rg, binary=bn), vc.goal, min(ms, 1500), use_cvc5=False)
            # attempt with E-matching only (quantifier-heavy goals that are closed by pattern instances come back in milliseconds)
            if verdict not in ("proved", "refuted"):
                v0, _m0, dt0, be0 = prove(hyps + ax, vc.goal, min(ms // 3, 4000), use_cvc5=False, ematch_only=True)
                dt += dt0
                if v0 == "proved":
                    verdict, m, be = v0, None, be0
            # portfolio: the nonlinear / quantified queries are seed-sensitive in z3; three short attempts then cvc5
            for k, sd in enumerate((7, 1, 3)):
                if verdict in ("proved", "refuted"):
                    break
                v2, m, dt2, be = prove(hyps + ax, vc.goal, max(ms // 3, 2000), use_cvc5=(k == 2), seed=sd)
                verdict, dt = v2, dt + dt2
        if vc.kind == "reach":
            # proved False => vacuous path: report as undecided (never a pass); anything else is the expected outcome
            verdict = "undecided" if verdict == "proved" else "proved"
            m = None
        vc.status, vc.secs, vc.backend, vc.model = verdict, dt, be, m
    return dict(vcs=vcs, dropped=sorted(ex.dropped), error=None, sha=sha, file=file, secs=time.time() - t0, executor=ex,
                partial_loops=list(ex.partial_loops))


def verify_plain(arg):
    """picklable wrapper for worker processes: (contract name, ms) -> plain dict (no z3 objects)"""
    name, ms = arg
    from contracts.wpc import W
    ms = max(ms, W[name].get("ms", 0))          # a contract may ask for a larger per-obligation budget (quantifier-heavy proofs; undecided is never a verdict)
    r = verify(W[name], W, ms)
    return dict(name=name, error=r["error"], dropped=r["dropped"], sha=r.get("sha"), file=r.get("file"), secs=r.get("secs"), partial_loops=r.get("partial_loops", []),
                vcs=[dict(oid=v.oid, kind=v.kind, status=v.status, secs=v.secs, backend=v.backend, note=v.note, path=v.path,
                          model=str(v.model)[:2000] if v.model is not None else None) for v in r["vcs"]])
