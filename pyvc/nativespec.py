"""Native twin of the contract language: the same requires/ensures strings are evaluated by CPython
against the real function (replay of counterexamples, bounded stand-in, cross-check of the engine)."""
from __future__ import annotations

import ast
import copy


class _Rewrite(ast.NodeTransformer):
    def visit_Call(self, node):
        self.generic_visit(node)
        if isinstance(node.func, ast.Name):
            f, a = node.func.id, node.args
            if f in ("forall", "exists") and len(a) == 2:          # over all integers: natively over a window that contains every key used by the bounded domains
                gen = ast.GeneratorExp(elt=a[1], generators=[ast.comprehension(
                    target=ast.Name(id=a[0].id, ctx=ast.Store()),
                    iter=ast.Call(func=ast.Name(id="range", ctx=ast.Load()), args=[ast.Constant(-64), ast.Constant(65)], keywords=[]), ifs=[], is_async=0)])
                return ast.Call(func=ast.Name(id="all" if f == "forall" else "any", ctx=ast.Load()), args=[gen], keywords=[])
            if f in ("forall", "exists") and len(a) == 4:
                gen = ast.GeneratorExp(elt=a[3], generators=[ast.comprehension(
                    target=ast.Name(id=a[0].id, ctx=ast.Store()),
                    iter=ast.Call(func=ast.Name(id="range", ctx=ast.Load()), args=[a[1], a[2]], keywords=[]), ifs=[], is_async=0)])
                return ast.Call(func=ast.Name(id="all" if f == "forall" else "any", ctx=ast.Load()), args=[gen], keywords=[])
            if f == "sum" and len(a) == 4:
                gen = ast.GeneratorExp(elt=a[3], generators=[ast.comprehension(
                    target=ast.Name(id=a[0].id, ctx=ast.Store()),
                    iter=ast.Call(func=ast.Name(id="range", ctx=ast.Load()), args=[a[1], a[2]], keywords=[]), ifs=[], is_async=0)])
                return ast.Call(func=ast.Name(id="__sum", ctx=ast.Load()), args=[gen], keywords=[])
            if f == "implies" and len(a) == 2:
                return ast.BoolOp(op=ast.Or(), values=[ast.UnaryOp(op=ast.Not(), operand=a[0]), a[1]])
            if f == "iff" and len(a) == 2:
                return ast.Compare(left=ast.Call(func=ast.Name(id="bool", ctx=ast.Load()), args=[a[0]], keywords=[]), ops=[ast.Eq()],
                                   comparators=[ast.Call(func=ast.Name(id="bool", ctx=ast.Load()), args=[a[1]], keywords=[])])
            if f == "ite" and len(a) == 3:
                return ast.IfExp(test=a[0], body=a[1], orelse=a[2])
            if f == "pow2" and len(a) == 1:
                return ast.BinOp(left=ast.Constant(2), op=ast.Pow(), right=a[0])
            if f == "is_none" and len(a) == 1:
                return ast.Compare(left=a[0], ops=[ast.Is()], comparators=[ast.Constant(None)])
            if f == "old" and len(a) == 1:
                return _Old().visit(a[0])
        return node


class _Old(ast.NodeTransformer):
    def visit_Name(self, node):
        if isinstance(node.ctx, ast.Load) and node.id not in ("len", "range", "all", "any", "__sum", "bool", "min", "max", "abs", "True", "False", "None"):
            return ast.Subscript(value=ast.Name(id="__old", ctx=ast.Load()), slice=ast.Constant(node.id), ctx=ast.Load())
        return node


_cache: dict = {}


def compile_expr(src: str):
    if src not in _cache:
        tree = ast.parse(src.strip(), mode="eval")
        tree = ast.fix_missing_locations(_Rewrite().visit(tree))
        _cache[src] = compile(tree, "<contract>", "eval")
    return _cache[src]


def evaluate(src: str, env: dict, old: dict | None = None, extra: dict | None = None):
    g = {"__sum": sum, "__old": old or {}, "__builtins__": {"len": len, "range": range, "all": all, "any": any, "bool": bool,
                                                            "min": min, "max": max, "abs": abs, "isinstance": isinstance, "list": list, "int": int}}
    if extra:
        g.update(extra)
    g.update(env)        # one namespace: generator expressions inside eval() resolve free names in globals only
    return eval(compile_expr(src), g)


def check_native(contract: dict, limit: int | None = None):
    """Bounded contract evaluation on the real function.  -> (evaluations, nontrivial, failure or None)"""
    nat = contract.get("native")
    if not nat:
        return 0, 0, None
    from .wp import locate   # only for the name of the target
    import importlib
    mod, _, qual = contract["target"].partition(":")
    m = importlib.import_module(mod)
    o = m
    for part in qual.split("."):
        if part.startswith("<"):      # nested function: the native twin drives it through the enclosing function
            break
        if part.startswith("__") and not part.endswith("__") and isinstance(o, type):
            part = "_" + o.__name__.lstrip("_") + part
        o = getattr(o, part)
    fn = getattr(o, "__func__", o)
    n = ok = 0
    extra = nat.get("spec_funcs", {})
    for kw in nat["domain"]():
        if limit is not None and n >= limit:
            break
        env = dict(kw)
        old = copy.deepcopy(kw)
        if "spec_funcs_from" in nat:
            extra = nat["spec_funcs_from"](**kw)
        if "ghost" in nat:
            g = nat["ghost"](**copy.deepcopy(kw))
            env.update(g)
            old.update(copy.deepcopy(g))
        try:
            if not nat.get("skip_requires") and not all(evaluate(r, env, old, extra) for r in contract.get("requires", [])):
                continue          # skip_requires: the native domain is constructed inside the precondition (its clauses use macros / attribute functions)
        except Exception:
            continue
        n += 1
        raised = None
        try:
            res = nat["call"](fn, **copy.deepcopy(kw)) if not nat.get("mutates") else nat["call"](fn, **env)
        except Exception as e:           # noqa
            raised = e
        if raised is not None:
            allowed = contract.get("raises", {})
            nm = type(raised).__name__
            if nm in allowed:
                try:
                    if evaluate(allowed[nm], env, old, extra):
                        ok += 1
                        continue
                except Exception:
                    pass
            return n, ok, dict(input=_plain(kw), raised=repr(raised), clause=f"raises {nm} not permitted here")
        env["result"] = res
        if "check" in nat:          # contracts whose clauses are attached to individual return statements: an explicit native reading of the same clauses
            why = nat["check"](res, **copy.deepcopy(kw))
            if why:
                return n, ok, dict(input=_plain(kw), output=_plain(res), clause=str(why))
        if "ghost_post" in nat:
            env.update(nat["ghost_post"](res, **copy.deepcopy(kw)))
        for e in ([] if nat.get("skip_ensures") else contract.get("ensures", [])):
            try:
                good = evaluate(e, env, old, extra)
            except NameError:
                raise                    # a mistake in the contract text is a framework error, not a verdict
            except Exception as ex:
                good = False
                e = f"{e}   [evaluation raised {ex!r}]"
            if not good:
                return n, ok, dict(input=_plain(kw), output=_plain(res), clause=e)
        ok += 1
    return n, ok, None


def _plain(x):
    try:
        import json
        json.dumps(x)
        return x
    except Exception:
        return repr(x)
