"""Evidence, replay files, known findings and exit codes shared by every check.

Verdict vocabulary (DESIGN 2.6):
  tier P  proved / refuted / undecided      (deductive: all inputs, all iterations)
  tier S  proved / refuted / undecided      (shape-bounded, solver-complete over ids/assignments/models)
  tier E  passed / failed                   (bounded contract evaluation on the real code)

Exit codes: 0 held on everything explored, 1 violation (replayed or no-failing-input-found),
3 framework crash.  An undecided obligation never becomes a violation.
"""
from __future__ import annotations

import hashlib
import importlib
import inspect
import json
import os
import sys
import time
import traceback
from pathlib import Path

ROOT = Path(__file__).resolve().parent.parent
_OUT = Path(os.environ["VERIF_OUT"]) if os.environ.get("VERIF_OUT") else ROOT   # self-tests redirect outputs
EVIDENCE = _OUT / "evidence"
REPLAYS = _OUT / "replays"
WORK = ROOT / ".work"
KNOWN = ROOT / "known_findings.json"

LEVELS = ("exploration", "fault_enumeration", "model_checking", "proof", "translation_validation", "other")


def seed() -> int:
    try:
        return int(os.environ.get("VERIF_SEED", "0"))
    except ValueError:
        return 0


def source_hash(obj_or_path: str) -> dict:
    """'module:qualname' -> {'function':..., 'sha256':..., 'file':..., 'line':...} from the current tree."""
    mod, _, qual = obj_or_path.partition(":")
    m = importlib.import_module(mod)
    o = m
    for part in qual.split("."):
        if part.startswith("<"):
            break
        if part.startswith("__") and not part.endswith("__") and inspect.isclass(o):
            part = "_" + o.__name__.lstrip("_") + part
        o = getattr(o, part)
    o = getattr(o, "__func__", o)
    if isinstance(o, property):
        o = o.fget
    o = inspect.unwrap(o)
    try:
        src = inspect.getsource(o)
        file = inspect.getsourcefile(o)
        line = inspect.getsourcelines(o)[1]
    except (OSError, TypeError):
        src, file, line = repr(o), "?", 0
    return dict(function=obj_or_path, sha256=hashlib.sha256(src.encode()).hexdigest()[:16], file=file, line=line)


class Check:
    def __init__(self, pid: str, tier: str, level: str, explanation: str):
        assert level in LEVELS
        self.pid, self.tier, self.level, self.explanation = pid, tier, level, explanation
        self.t0 = time.time()
        self.functions: list[dict] = []
        self.obligs: list[dict] = []
        self.viol: list[dict] = []
        self.known_hits: list[str] = []
        self.assumptions: list[str] = []
        self.trusted: list[str] = []
        self.samples: list = []
        self.evaluations = 0
        self.nontrivial: set = set()
        self.rule = ""
        self.exhaustive: bool | None = None
        self.extra: dict = {}
        self.solver_s = {"z3": 0.0, "cvc5": 0.0, "pycryptosat": 0.0}
        self._known = self._load_known()
        for d in (REPLAYS, EVIDENCE, WORK):
            d.mkdir(parents=True, exist_ok=True)
        for old in REPLAYS.glob(f"{pid}-*.json"):      # replay files are rewritten by every run of this property's check
            old.unlink()

    # ---- bookkeeping -------------------------------------------------
    def _load_known(self):
        if KNOWN.exists():
            data = json.loads(KNOWN.read_text())
            return [e for e in data.get("findings", []) if e.get("property") == self.pid and e.get("status") == "known"]
        return []

    def under_contract(self, *names: str):
        for n in names:
            try:
                self.functions.append(source_hash(n))
            except Exception as e:  # the function vanished: that is a finding for the caller, not a crash here
                self.functions.append(dict(function=n, sha256="MISSING", error=repr(e)))

    def assume(self, *texts: str):
        for t in texts:
            if t not in self.assumptions:
                self.assumptions.append(t)

    def trust(self, *texts: str):
        for t in texts:
            if t not in self.trusted:
                self.trusted.append(t)

    def sample(self, s, cap: int = 12):
        if len(self.samples) < cap:
            self.samples.append(s)

    def count(self, key=None, nontrivial: bool = True):
        """One bounded evaluation; `key` identifies the distinct case (hashable / str)."""
        self.evaluations += 1
        if nontrivial and key is not None:
            self.nontrivial.add(key if isinstance(key, (str, int, tuple)) else repr(key))

    def oblig(self, oid: str, tier: str, status: str, backend: str = "", secs: float = 0.0, detail=None):
        assert tier in ("P", "S", "E") and status in ("proved", "refuted", "undecided", "passed", "failed")
        self.obligs.append(dict(id=oid, tier=tier, status=status, backend=backend, secs=round(secs, 4),
                                **({"detail": detail} if detail is not None else {})))
        if backend in self.solver_s:
            self.solver_s[backend] += secs

    # ---- violations ---------------------------------------------------
    def violation(self, obligation: str, key: str, what: str, replay: dict, failing_input_found: bool = True, tags: dict | None = None):
        """Record a violation.  `key` canonically identifies the failing input / call site / history;
        it is matched against known_findings.json: exact `key`, `key_prefix`, or a `match` dict whose every entry must
        agree with `tags` (a tag that is a list matches by membership) — i.e. the specific construction that fails."""
        tags = tags or {}

        def matches(e):
            if e.get("key") == key or (e.get("key_prefix") and key.startswith(e["key_prefix"])):
                return True
            m = e.get("match")
            if not m:
                return False
            for k_, v in m.items():
                t = tags.get(k_ if k_ != "feature" else "features")
                if isinstance(t, (list, tuple, set)):
                    if v not in t:
                        return False
                elif t != v:
                    return False
            return True
        for e in self._known:
            if matches(e):
                line = f"KNOWN-FINDING: property={self.pid} {e.get('what', what)} [{key}]"
                if line not in self.known_hits:
                    self.known_hits.append(line)
                return False
        safe = "".join(ch if ch.isalnum() or ch in "-_." else "_" for ch in f"{self.pid}-{obligation}-{key}")[:150]
        path = REPLAYS / f"{safe}.json"
        body = dict(property=self.pid, obligation=obligation, key=key, what=what,
                    failing_input_found=failing_input_found, **replay)
        path.write_text(json.dumps(body, indent=1, default=repr))
        self.viol.append(dict(obligation=obligation, key=key, what=what, replay=str(path),
                              failing_input_found=failing_input_found))
        return True

    # ---- finish ---------------------------------------------------------
    def finish(self) -> int:
        by = {}
        for o in self.obligs:
            k = f"{o['tier']}:{o['status']}"
            by[k] = by.get(k, 0) + 1
        n_obl = len(self.obligs)
        n_dis = sum(1 for o in self.obligs if o["status"] in ("proved", "passed"))
        p_obl = [o for o in self.obligs if o["tier"] == "P"]
        level = self.level
        undec = [o["id"] for o in self.obligs if o["status"] == "undecided"]
        if level == "proof" and (not p_obl or any(o["status"] != "proved" for o in self.obligs)):
            level = "other"   # downgrade for this run (DESIGN 2.6)
        cov = dict(
            evaluations=max(self.evaluations, n_obl),
            # measured: distinct non-trivial cases counted by the check (count()); checks that only record obligations fall
            # back to the number of distinct discharged obligation ids
            distinct_nontrivial=len(self.nontrivial) if self.evaluations else len({o["id"] for o in self.obligs if o["status"] in ("proved", "passed")}),
            rule=self.rule or "one case per obligation id; non-trivial = obligation generated from current source and decided",
            samples=self.samples[:12] or [o for o in self.obligs[:6]],
            obligations=n_obl, discharged=n_dis,
            obligations_by_tier_status=by,
            proved_P=[o["id"] for o in p_obl if o["status"] == "proved"],
            undecided=undec,
            checker_cmd=f"./vcheck {self.pid} {self.tier}",
            trusted_base=self.trusted,
            explanation=self.explanation,
            functions_under_contract=self.functions,
            solver_seconds={k: round(v, 3) for k, v in self.solver_s.items()},
            known_findings_matched=self.known_hits,
            violations_detail=self.viol[:20],
        )
        if self.exhaustive is not None:
            cov["exhaustive"] = self.exhaustive
        cov.update(self.extra)
        slow = sorted(self.obligs, key=lambda o: -o["secs"])[:5]
        cov["slowest_obligations"] = [dict(id=o["id"], secs=o["secs"], backend=o["backend"]) for o in slow]
        ev = dict(property_id=self.pid, tier=self.tier, seed=seed(), level=level, coverage=cov,
                  assumptions=self.assumptions, wall_s=round(time.time() - self.t0, 2), violations=len(self.viol))
        (EVIDENCE / f"{self.pid}.json").write_text(json.dumps(ev, indent=1, default=repr))
        try:
            import jsonschema
            jsonschema.validate(ev, json.loads(Path("/root/.vp/EVIDENCE.schema.json").read_text()))
        except FileNotFoundError:
            pass
        for u in undec[:20]:
            print(f"UNDECIDED obligation={u}")
        for line in self.known_hits:
            print(line)
        seen = set()
        for v in self.viol:
            if v["replay"] in seen:
                continue
            seen.add(v["replay"])
            tail = "" if v["failing_input_found"] else " no-failing-input-found"
            print(f"VIOLATION property={self.pid} replay={v['replay']}{tail}")
        print(f"{self.pid} {self.tier}: obligations={n_obl} discharged={n_dis} {by} evaluations={cov['evaluations']} "
              f"violations={len(self.viol)} known={len(self.known_hits)} wall={ev['wall_s']}s level={level}")
        return 1 if self.viol else 0


def run_check(main):
    """Wrap a check's main(tier) -> exit code; crashes are exit 3, never a VIOLATION."""
    tier = "quick"
    for a in sys.argv[1:]:
        if a in ("quick", "thorough"):
            tier = a
    import atexit
    import shutil
    import tempfile
    WORK.mkdir(parents=True, exist_ok=True)
    cwd = tempfile.mkdtemp(prefix="run-", dir=WORK)     # the library drops <uuid>.cnf files into the cwd: keep them out of /verif
    os.chdir(cwd)
    atexit.register(shutil.rmtree, cwd, True)
    try:
        rc = main(tier)
    except SystemExit:
        raise
    except BaseException:
        traceback.print_exc()
        print("FRAMEWORK-CRASH (exit 3): not a verdict")
        sys.exit(3)
    sys.exit(rc)
