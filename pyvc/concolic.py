"""Concolic execution of the *unmodified* clause builders of /repo on symbolic integers.

Variable ids and the fresh counter are SymInt proxies (concrete shadow + z3 term).  Every decision the
code takes on a proxy (comparison, truthiness, abs) is appended to the path condition of the active
Run; anything that would lose the term raises Unsupported.  See DESIGN 2.3.
"""
from __future__ import annotations

import builtins
import contextlib
import warnings

import z3

_int = builtins.int
_abs = builtins.abs


class Unsupported(Exception):
    pass


class Run:
    """One concolic run: path condition, concretisation log."""
    current: "Run | None" = None

    def __init__(self):
        self.pc: list = []
        self._seen: set = set()
        self.hash_uses = 0

    def add(self, cond):
        k = cond.get_id() if hasattr(cond, "get_id") else id(cond)      # cond stays alive in self.pc, so its id is not recycled
        if k not in self._seen:
            self._seen.add(k)
            self.pc.append(cond)

    def __enter__(self):
        self._prev = Run.current
        Run.current = self
        return self

    def __exit__(self, *a):
        Run.current = self._prev


def _pc(cond):
    if Run.current is None:
        raise Unsupported("decision on a symbolic integer outside a Run")
    Run.current.add(cond)


def lift(o):
    if isinstance(o, SymInt):
        return o.t
    if isinstance(o, bool) or not isinstance(o, _int):
        raise Unsupported(f"cannot lift {type(o).__name__}")
    return z3.IntVal(_int.__int__(o))


def shadow(o) -> _int:
    return _int.__int__(o)


class SymInt(_int):
    def __new__(cls, shadow_value, term):
        o = _int.__new__(cls, shadow_value)
        o.t = term
        return o

    # --- arithmetic keeps the term
    def __neg__(s):
        return SymInt(-shadow(s), -s.t)

    def __pos__(s):
        return s

    def __add__(s, o):
        if not isinstance(o, _int):
            return NotImplemented
        return SymInt(shadow(s) + shadow(o), s.t + lift(o))

    __radd__ = __add__

    def __sub__(s, o):
        if not isinstance(o, _int):
            return NotImplemented
        return SymInt(shadow(s) - shadow(o), s.t - lift(o))

    def __rsub__(s, o):
        if not isinstance(o, _int):
            return NotImplemented
        return SymInt(shadow(o) - shadow(s), lift(o) - s.t)

    def __mul__(s, o):
        if not isinstance(o, _int):
            return NotImplemented
        return SymInt(shadow(s) * shadow(o), s.t * lift(o))

    __rmul__ = __mul__

    # --- decisions go to the path condition
    def _cmp(s, o, pyop, zop):
        if not isinstance(o, _int):
            return NotImplemented
        r = pyop(shadow(s), shadow(o))
        c = zop(s.t, lift(o))
        _pc(c if r else z3.Not(c))
        return r

    def __eq__(s, o):
        return s._cmp(o, _int.__eq__, lambda a, b: a == b)

    def __ne__(s, o):
        r = s.__eq__(o)
        return r if r is NotImplemented else not r

    def __lt__(s, o):
        return s._cmp(o, _int.__lt__, lambda a, b: a < b)

    def __le__(s, o):
        return s._cmp(o, _int.__le__, lambda a, b: a <= b)

    def __gt__(s, o):
        return s._cmp(o, _int.__gt__, lambda a, b: a > b)

    def __ge__(s, o):
        return s._cmp(o, _int.__ge__, lambda a, b: a >= b)

    def __bool__(s):
        return s.__ne__(0)

    def __abs__(s):
        c = shadow(s) >= 0
        _pc(s.t >= 0 if c else s.t < 0)
        return s if c else -s

    def __hash__(s):
        # set/dict membership is decided on the shadow: a possible silent concretisation, guarded by the
        # dual-shadow run and the re-evaluation check (DESIGN 2.3 a/b); counted for the evidence.
        if Run.current is not None:
            Run.current.hash_uses += 1
        return hash(shadow(s))

    # --- anything that loses the term
    def _lose(s, *a, **k):
        raise Unsupported("operation would drop the symbolic term")

    __index__ = __floordiv__ = __rfloordiv__ = __mod__ = __rmod__ = __truediv__ = __pow__ = __rpow__ = _lose
    __lshift__ = __rshift__ = __and__ = __or__ = __xor__ = __invert__ = __float__ = __round__ = _lose
    __str__ = __repr__ = __format__ = _lose

    def __int__(s):
        return s  # with `int` shadowed in the target module; CPython's own int() would warn -> error


class _IntMeta(type):
    def __instancecheck__(cls, x):
        return isinstance(x, _int)

    def __call__(cls, x=0, *a):
        if isinstance(x, SymInt):
            return x
        v = getattr(x, "_val", None)
        if isinstance(v, SymInt):     # Var(...) of the repo
            return v
        return _int(x, *a)


class IntShadow(metaclass=_IntMeta):
    """Stands in for `int` in the target module: isinstance keeps working, int(Var) keeps the proxy."""


def abs_shadow(x):
    if isinstance(x, SymInt):
        return x.__abs__()
    if hasattr(x, "__abs__"):
        return x.__abs__()
    return _abs(x)


@contextlib.contextmanager
def shadowed(*modules):
    """Shadow int/abs in the globals of the given modules for the duration of a concolic run."""
    saved = []
    for m in modules:
        saved.append((m, m.__dict__.get("int", None), m.__dict__.get("abs", None)))
        m.int = IntShadow
        m.abs = abs_shadow
    try:
        with warnings.catch_warnings():
            warnings.simplefilter("error", DeprecationWarning)
            yield
    finally:
        for m, i, a in saved:
            for name, old in (("int", i), ("abs", a)):
                if old is None:
                    m.__dict__.pop(name, None)
                else:
                    setattr(m, name, old)


# ---------------------------------------------------------------------------
# semantics of clause lists with symbolic literals

def lit_sem(t, val):
    """[[l]] = val(l) if l > 0 else not val(-l)   for a z3 Int term t."""
    return z3.If(t > 0, val(t), z3.Not(val(-t)))


def clause_terms(clause):
    return [lift(v._val) for v in clause._vals]


def clause_sem(clause, val):
    ts = clause_terms(clause)
    if not ts:
        return z3.BoolVal(False)
    return z3.Or(*[lit_sem(t, val) for t in ts]) if len(ts) > 1 else lit_sem(ts[0], val)


def conj(xs):
    xs = list(xs)
    if not xs:
        return z3.BoolVal(True)
    return z3.And(*xs) if len(xs) > 1 else xs[0]
